#!/bin/bash
# Rebuilds /verif/bin/simcheck from /verif/sim against /repo's current working tree (hooks on: -tags verif).
# Exit 2 on build trouble (never a VIOLATION).
set -u
export GOFLAGS=-mod=mod GOPROXY=off GOSUMDB=off GOTOOLCHAIN=local
REPO=${VERIF_REPO:-/repo}
HERE=$(cd "$(dirname "$0")" && pwd)
SIM=$HERE/sim
OUT=${VERIF_BIN:-$HERE/bin/simcheck}
mkdir -p "$(dirname "$OUT")"
(
  flock 9
  {
    sed -e 's#^module .*#module verifsim#' "$REPO/go.mod"
    echo
    echo "require github.com/chain4energy/c4e-chain v0.0.0"
    echo "replace github.com/chain4energy/c4e-chain => $REPO"
  } > "$SIM/go.mod.new"
  if ! cmp -s "$SIM/go.mod.new" "$SIM/go.mod"; then mv "$SIM/go.mod.new" "$SIM/go.mod"; else rm -f "$SIM/go.mod.new"; fi
  cp "$REPO/go.sum" "$SIM/go.sum"
  cd "$SIM" && go build -tags verif -o "$OUT" ./cmd/simcheck
) 9>"$HERE/.build.lock"
rc=$?
if [ $rc -ne 0 ]; then echo "BUILD-FAILED rc=$rc" >&2; exit 2; fi
exit 0
