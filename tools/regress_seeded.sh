#!/bin/bash
# usage: regress_seeded.sh [id-prefix...]   Re-runs every seeded change (batch seed 1, quick tier of the property it was
# written against, or of the check recorded as catching it) against the current /repo HEAD and the current machinery;
# prints one line per change and records the outcome in meta.json under "regression".
cd /verif/seeded
for d in */; do
  id=${d%/}
  if [ $# -gt 0 ]; then ok=0; for p in "$@"; do [[ $id == $p* ]] && ok=1; done; [ $ok = 1 ] || continue; fi
  prop=$(python3 - "$id" <<'PY'
import json,sys
m=json.load(open('/verif/seeded/%s/meta.json'%sys.argv[1]))
det=[d for d in m.get('detected_by',[]) if any('caught' in r for r in d.get('runs',[]))]
print(det[0]['check'] if det else m['property'])
PY
)
  out=$(VERIF_SEED=1 /verif/tools/try_patch.sh "/verif/seeded/$id/patch.diff" "$prop" quick 2>&1)
  if echo "$out" | grep -q "PATCH DOES NOT APPLY"; then r="STALE-PATCH"; elif echo "$out" | grep -q "^VIOLATION"; then r="caught"; elif echo "$out" | grep -q "INFRA\|BUILD-FAILED"; then r="INFRA"; else r="MISSED"; fi
  echo "$id $prop $r"
  python3 - "$id" "$prop" "$r" <<'PY'
import json,sys,subprocess
p='/verif/seeded/%s/meta.json'%sys.argv[1]
m=json.load(open(p))
head=subprocess.run(['git','-C','/repo','rev-parse','--short','HEAD'],capture_output=True,text=True).stdout.strip()
m['regression']={'check':sys.argv[2],'result':sys.argv[3],'repo_head':head,'seed':1,'tier':'quick'}
json.dump(m,open(p,'w'),indent=1)
PY
done
