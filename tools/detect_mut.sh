#!/bin/bash
# usage: detect_mut.sh <worktree> <seeded-id> <property> [tier]
# Runs the property's check against the changed worktree for batch seeds 1..3 and records the outcome in meta.json.
WT=$1; ID=$2; PROP=$3; TIER=${4:-quick}
RES=""
for s in 1 2 3; do
  out=$(VERIF_SEED=$s /verif/tools/try_mut.sh "$WT" "$PROP" "$TIER" 2>&1)
  sig=$(echo "$out" | grep -E "^violation" | head -1 | sed -E 's/^violation: ([^ ]+) \[([^]]+)\].*/\1 [\2]/' | sed -E "s#/tmp/mut/[A-Za-z0-9]+/##g")
  if echo "$out" | grep -q "^VIOLATION"; then r="seed $s: caught ($sig)"; else r="seed $s: MISSED"; fi
  echo "$ID $PROP $TIER $r"
  RES="$RES|$r"
done
python3 - "/verif/seeded/$ID/meta.json" "$PROP" "$TIER" "$RES" <<'PY'
import json,sys
p,prop,tier,res=sys.argv[1:5]
m=json.load(open(p))
m.setdefault("detected_by",[])
m["detected_by"]=[d for d in m["detected_by"] if not (d.get("check")==prop and d.get("tier")==tier)]
m["detected_by"].append({"check":prop,"tier":tier,"runs":[r for r in res.split("|") if r]})
m["ran"]="tools/try_mut.sh <worktree with patch applied> %s %s with VERIF_SEED=1,2,3"%(prop,tier)
json.dump(m,open(p,"w"),indent=1)
PY
