#!/bin/bash
# usage: detect_mut.sh <seeded-id> <property> [tier]
# Applies /verif/seeded/<id>/patch.diff to a fresh scratch worktree of /repo HEAD, runs the property's check for
# batch seeds 1..3 and records the outcome in meta.json.
ID=$1; PROP=$2; TIER=${3:-quick}
RES=""
for s in 1 2 3; do
  out=$(VERIF_SEED=$s /verif/tools/try_patch.sh "/verif/seeded/$ID/patch.diff" "$PROP" "$TIER" 2>&1)
  sig=$(echo "$out" | grep -E "^violation" | head -1 | sed -E 's/^violation: ([^ ]+) \[([^]]+)\].*/\1 [\2]/' | sed -E "s#/tmp/mut/[A-Za-z0-9-]+/##g")
  if echo "$out" | grep -q "^VIOLATION"; then r="seed $s: caught ($sig)"; else r="seed $s: MISSED"; fi
  echo "$ID $PROP $TIER $r"
  RES="$RES|$r"
done
python3 - "/verif/seeded/$ID/meta.json" "$PROP" "$TIER" "$RES" <<'PY'
import json,sys
p,prop,tier,res=sys.argv[1:5]
m=json.load(open(p))
m.setdefault("detected_by",[])
m["detected_by"]=[d for d in m["detected_by"] if not (d.get("check")==prop and d.get("tier")==tier)]
m["detected_by"].append({"check":prop,"tier":tier,"runs":[r for r in res.split("|") if r]})
m["ran"]="tools/try_patch.sh seeded/<id>/patch.diff %s %s with VERIF_SEED=1,2,3 (patch applied to a scratch worktree of /repo HEAD)"%(prop,tier)
json.dump(m,open(p,"w"),indent=1)
PY
