#!/bin/bash
# usage: try_patch.sh <patch.diff> <property-id> [tier]   (env VERIF_SEED honoured)
# Applies the patch to a fresh scratch worktree of /repo's HEAD (never to /repo itself), runs the property's check
# against it with a private evidence/replay directory, removes the worktree.
PATCH=$(readlink -f "$1"); PROP=$2; TIER=${3:-quick}
NAME=tp-$$-$(basename "$(dirname "$PATCH")")
WT=/tmp/mut/$NAME
mkdir -p /tmp/mut
git -C /repo worktree add -q "$WT" HEAD || exit 2
if ! git -C "$WT" apply "$PATCH"; then echo "PATCH DOES NOT APPLY"; git -C /repo worktree remove --force "$WT"; exit 2; fi
/verif/tools/try_mut.sh "$WT" "$PROP" "$TIER"; rc=$?
git -C /repo worktree remove --force "$WT"; rm -rf "/tmp/mut/vd-$NAME"
exit $rc
