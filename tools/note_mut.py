#!/usr/bin/env python3
"""usage: note_mut.py <seeded-id> "<what had to be strengthened first, or ->"  : records the note in meta.json"""
import json,sys
p='/verif/seeded/%s/meta.json'%sys.argv[1]
m=json.load(open(p)); m['strengthened']=sys.argv[2]; json.dump(m,open(p,'w'),indent=1)
