#!/bin/bash
# usage: revert_check.sh   For every "fixed" entry of known_findings.json: revert its fix: commit in a scratch worktree of
# /repo HEAD, build the simulator against that tree and replay the entry's finding file - the violation must be back.
# Prints one line per entry; the summary is written to /verif/findings/REVERT-CHECK.txt.
export GOFLAGS=-mod=mod GOPROXY=off GOSUMDB=off GOTOOLCHAIN=local
OUT=/verif/findings/REVERT-CHECK.txt
echo "fix-revert check against /repo $(git -C /repo rev-parse --short HEAD), /verif $(git -C /verif rev-parse --short HEAD)" > $OUT
python3 - <<'PY' > /tmp/mut/fixed_entries.txt
import json
seen=set()
for e in json.load(open('/verif/known_findings.json'))['findings']:
    if e['status']=='fixed' and e.get('replay') and e['commit'] not in seen:
        seen.add(e['commit']); print(e['commit'], e['replay'], e['property'])
PY
while read commit replay prop; do
  WT=/tmp/mut/rv-$commit; rm -rf $WT; git -C /repo worktree add -q $WT HEAD || continue
  if git -C $WT revert --no-commit $commit >/dev/null 2>&1; then
    VD=/tmp/mut/vd-rv; mkdir -p $VD; cp /verif/known_findings.json $VD/
    if VERIF_REPO=$WT VERIF_BIN=$VD/simcheck /verif/build.sh >/dev/null 2>&1; then
      out=$(VERIF_DIR=$VD $VD/simcheck replay /verif/$replay 2>&1 | tail -2)
      if echo "$out" | grep -q "^VIOLATION"; then r="violation is back"; elif echo "$out" | grep -q "no violation"; then r="NO VIOLATION"; else r="other: $(echo $out | cut -c1-120)"; fi
    else r="does not build after revert"; fi
  else r="revert conflicts with later changes"; fi
  echo "$commit $prop $replay: $r" | tee -a $OUT
  git -C /repo worktree remove --force $WT; rm -rf /tmp/mut/vd-rv
done < /tmp/mut/fixed_entries.txt
git -C /repo worktree prune
