#!/bin/bash
# usage: try_mut.sh <repo-worktree-with-change-applied> <property-id> [tier] [extra simcheck flags]
# Builds the simulator against the given worktree (not /repo) and runs one property's check with its own
# evidence/replay directory, so /verif and /repo stay untouched.
WT=$1; PROP=$2; TIER=${3:-quick}; shift 3 2>/dev/null
NAME=$(basename "$WT")
VD=/tmp/mut/vd-$NAME
mkdir -p "$VD"
cp /verif/known_findings.json "$VD/"
mkdir -p "$VD/findings" && cp /verif/findings/K*.json "$VD/findings/" 2>/dev/null
VERIF_REPO=$WT VERIF_BIN=$VD/simcheck /verif/build.sh || exit 2
VERIF_DIR=$VD "$VD/simcheck" check -prop "$PROP" -tier "$TIER" "$@" 2>&1 | grep -E "^violation|^VIOLATION|^KNOWN|^done|INFRA" | cut -c1-500
exit ${PIPESTATUS[0]}
