#!/usr/bin/env python3
"""Prints the sensitivity table (markdown) for the seeded changes whose ids are given, from their meta.json."""
import json,sys,os,re
ids=sys.argv[1:] or sorted(os.listdir('/verif/seeded'))
print('| seeded change (id under /verif/seeded) | what it needs | caught by quick tier (seeds 1/2/3) | what had to be strengthened first |')
print('|---|---|---|---|')
for d in ids:
    m=json.load(open('/verif/seeded/%s/meta.json'%d))
    det=[]
    for x in m.get('detected_by',[]):
        n=sum(1 for r in x['runs'] if 'caught' in r)
        sigs=sorted(set(re.findall(r'\[([^\]]+)\]',' '.join(x['runs']))))
        sig=(' (`'+'`, `'.join(s[:70] for s in sigs[:2])+'`)') if sigs else ''
        det.append('%s %d/%d%s'%(x['check'],n,len(x['runs']),sig))
    print('| %s | %s | %s | %s |'%(d,m['needs_to_manifest'],'; '.join(det) or 'not run',m.get('strengthened','-')))
