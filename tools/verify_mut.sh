#!/bin/bash
# usage: verify_mut.sh <worktree> <seeded-id> <property> "<what it needs>"
# Confirms a property-breaking change delivered in a scratch worktree (change + demo test applied, patch.diff present):
# builds, existing suite passes apart from the pre-existing failures, demo fails with the change and passes without it.
# On success stores it under /verif/seeded/<seeded-id>/.
export GOFLAGS=-mod=mod GOPROXY=off GOSUMDB=off GOTOOLCHAIN=local
WT=$1; ID=$2; PROP=$3; NEEDS=$4
cd "$WT" || exit 2
[ -f patch.diff ] || { echo "no patch.diff"; exit 2; }
DEMO=$(git status --porcelain | awk '$1=="??" && $2 ~ /_test\.go$/ {print $2}' | head -1)
[ -n "$DEMO" ] || { echo "no demo test file found"; exit 2; }
PKG=./$(dirname "$DEMO")/
TESTS=$(grep -oE '^func (Test[A-Za-z0-9_]+)' "$DEMO" | awk '{print $2}' | paste -sd'|')
echo "demo: $DEMO pkg: $PKG tests: $TESTS"
go build ./... || { echo "BUILD FAILED"; exit 1; }
# 1. demo fails with the change
if go test -vet=off -count=1 -run "^($TESTS)\$" "$PKG" >/tmp/mut/verify-$ID-with.log 2>&1; then echo "DEMO PASSES WITH THE CHANGE (bad)"; exit 1; fi
grep -q -- "--- FAIL" /tmp/mut/verify-$ID-with.log || { echo "demo did not run/fail properly"; tail -5 /tmp/mut/verify-$ID-with.log; exit 1; }
# 2. existing suite with the change: only pre-existing failures and the demo may fail
go test -vet=off -count=1 ./x/... ./app/... ./tests/app/... 2>&1 | grep -E "^--- FAIL" | grep -vE "TestCreateVestingAccount|TestMsgCreateVestingAccount_ValidateBasic|$TESTS" > /tmp/mut/verify-$ID-suite.log
if [ -s /tmp/mut/verify-$ID-suite.log ]; then echo "EXISTING TESTS FAIL WITH THE CHANGE:"; cat /tmp/mut/verify-$ID-suite.log; exit 1; fi
# 3. demo passes without the change
git apply -R patch.diff || { echo "cannot revert patch"; exit 2; }
go test -vet=off -count=1 -run "^($TESTS)\$" "$PKG" >/tmp/mut/verify-$ID-without.log 2>&1; RC=$?
git apply patch.diff
if [ $RC -ne 0 ]; then echo "DEMO FAILS WITHOUT THE CHANGE (bad)"; tail -5 /tmp/mut/verify-$ID-without.log; exit 1; fi
D=/verif/seeded/$ID
mkdir -p "$D"
cp patch.diff "$D/patch.diff"
cp "$DEMO" "$D/$(basename "$DEMO").txt"
cp NOTES.md "$D/NOTES.md" 2>/dev/null
python3 - "$D" "$PROP" "$NEEDS" "$DEMO" "$TESTS" <<'PY'
import json,sys
d,prop,needs,demo,tests=sys.argv[1:6]
json.dump({"property":prop,"needs_to_manifest":needs,"demo_test_path":demo,"demo_tests":tests,
 "confirmed":["go build ./... ok","demo test fails with the change","existing suite: only pre-existing failures besides the demo","demo test passes with the change reverted"],
 "detected_by":[]},open(d+"/meta.json","w"),indent=1)
PY
echo "CONFIRMED -> $D"
