import json,sys
t=json.load(open(sys.argv[1]))
d=t['spec'].get('distributor')
if d:
  for sd in d['params']['sub_distributors']:
    print(sd['name'],[ (s['type'][:4],s['id'][-8:]) for s in sd['sources']],'->',sd['destinations']['primary_share']['type'][:4],sd['destinations']['primary_share']['id'][-8:],[(x['destination']['type'][:4],x['destination']['id'][-8:],x['share']) for x in sd['destinations'].get('shares',[])],sd['destinations']['burn_share'])
for i,b in enumerate(t['blocks']):
    print(i,b.get('dt_ns'),'fail',b.get('bank_fail'),'on',b.get('fail_dest_on'),'off',b.get('fail_dest_off'),'burn',b.get('fail_burn'),'crash',b.get('crash'),[ (x['signer'],x.get('route',''),json.dumps(x['msgs'][0])[:300]) for x in b.get('txs',[])])
print(t.get('signature'),t.get('message'))
print('balances',t['spec']['balances'])
print('vacc',t['spec'].get('vesting_accounts'))
