package kernel

import (
	"encoding/base64"
	"encoding/json"
	"fmt"
	"strings"
	"time"

	sdk "github.com/cosmos/cosmos-sdk/types"
	abci "github.com/tendermint/tendermint/abci/types"
	tmproto "github.com/tendermint/tendermint/proto/tendermint/types"
)

// Tx is one concrete, replayable transaction (or direct handler call).
type Tx struct {
	Signer   string            `json:"signer"`
	Msgs     []json.RawMessage `json:"msgs"`
	Route    string            `json:"route,omitempty"` // "" = signed tx through DeliverTx; "direct" = message router on cached ctx; "srv" = the module's message server itself; "sim" = handed to the Simulate service only; "atomic" = all messages through the router on one cached context, written only if all succeed (x/gov proposal semantics); "sig" = cfesignature message server
	Fee      string            `json:"fee,omitempty"`
	Gas      uint64            `json:"gas,omitempty"`
	SeqDelta int64             `json:"seq_delta,omitempty"`
	Dup      bool              `json:"dup,omitempty"` // deliver the same bytes twice (second must be rejected by sequence)
	Note     string            `json:"note,omitempty"`
	// Bin: the messages as base64 proto-encoded Any (used when JSON cannot represent the value faithfully, e.g. nil Int);
	// when present it takes precedence over Msgs.
	Bin []string `json:"bin,omitempty"`
}

// Query is one recorded ABCI query, executed against the committed state right after the block's Commit.
type Query struct {
	Path string `json:"path"`
	Data string `json:"data"` // base64
}

// Block is one simulated block: clock advance, faults, transactions.
type Block struct {
	DtNs        int64    `json:"dt_ns"`
	Txs         []Tx     `json:"txs,omitempty"`
	BankFail    []int    `json:"bank_fail,omitempty"`     // ordinals of distributor bank calls failing in this block
	FailDestOn  []string `json:"fail_dest_on,omitempty"`  // persistent payout failure switched on before this block
	FailDestOff []string `json:"fail_dest_off,omitempty"` // ... switched off
	FailBurn    *bool    `json:"fail_burn,omitempty"`
	Crash       int      `json:"crash,omitempty"` // 0 none, -1 die before Commit, k>0 die at k-th batch write of Commit
	Queries     []Query  `json:"queries,omitempty"`
	// Export: after this block's Commit the operator exports the genesis and restarts a fresh chain from it.
	Export bool   `json:"export,omitempty"`
	Note   string `json:"note,omitempty"`
}

// Trace is the replay file.
type Trace struct {
	Property  string          `json:"property"`
	Check     string          `json:"check"`
	Signature string          `json:"signature,omitempty"`
	Message   string          `json:"message,omitempty"`
	Seed      uint64          `json:"seed"`
	Profile   string          `json:"profile,omitempty"`
	Spec      WorldSpec       `json:"spec"`
	Blocks    []Block         `json:"blocks"`
	Extra     json.RawMessage `json:"extra,omitempty"`
	Node      NodeOpts        `json:"node,omitempty"` // the operator settings of the node that runs the trace
}

func (t *Trace) Clone() *Trace {
	bz, _ := json.Marshal(t)
	var c Trace
	_ = json.Unmarshal(bz, &c)
	return &c
}

// Violation of a property found by a monitor.
type Violation struct {
	Property  string `json:"property"`
	Check     string `json:"check"`
	Signature string `json:"signature"` // stable discriminating facts (used for known findings and for shrinking)
	Message   string `json:"message"`
	Block     int    `json:"block"`
	TxIndex   int    `json:"tx"`
}

func (v *Violation) String() string {
	return fmt.Sprintf("%s/%s [%s] block=%d tx=%d: %s", v.Property, v.Check, v.Signature, v.Block, v.TxIndex, v.Message)
}

// TxResult is what the chain answered for one Tx.
type TxResult struct {
	OK        bool
	Code      uint32
	Codespace string
	Log       string
	GasUsed   int64
	Events    []abci.Event
	Data      []byte
	Panic     *PanicInfo // panic that escaped (direct route) or was converted by baseapp (ErrPanic)
	BuildErr  string
	Simulated bool // route "sim": executed by the Simulate service only, never delivered
}

// Source yields blocks and transactions: a generator (records what it produced) or a recorded trace.
type Source interface {
	NextBlock(r *Run) *Block     // nil = end
	NextTx(r *Run, b *Block) *Tx // nil = no more txs in this block
}

// QuerySource is optionally implemented by generators that also issue queries after each block.
type QuerySource interface {
	NextQuery(r *Run, b *Block) *Query
}

// Monitor observes a run. Embed NopMonitor and override what is needed.
type Monitor interface {
	Init(r *Run)
	BeforeBlock(r *Run, b *Block)
	AfterBegin(r *Run, resp abci.ResponseBeginBlock)
	BeforeTx(r *Run, tx *Tx, msgs []sdk.Msg)
	AfterTx(r *Run, tx *Tx, msgs []sdk.Msg, res *TxResult)
	AfterEnd(r *Run, resp abci.ResponseEndBlock)
	AfterCommit(r *Run)
	AfterQuery(r *Run, q *Query, resp abci.ResponseQuery, pi *PanicInfo)
	Finish(r *Run)
}

type NopMonitor struct{}

func (NopMonitor) Init(*Run)                                               {}
func (NopMonitor) BeforeBlock(*Run, *Block)                                {}
func (NopMonitor) AfterBegin(*Run, abci.ResponseBeginBlock)                {}
func (NopMonitor) BeforeTx(*Run, *Tx, []sdk.Msg)                           {}
func (NopMonitor) AfterTx(*Run, *Tx, []sdk.Msg, *TxResult)                 {}
func (NopMonitor) AfterEnd(*Run, abci.ResponseEndBlock)                    {}
func (NopMonitor) AfterCommit(*Run)                                        {}
func (NopMonitor) Finish(*Run)                                             {}
func (NopMonitor) AfterQuery(*Run, *Query, abci.ResponseQuery, *PanicInfo) {}

// Stats are per-run counters merged into the evidence.
type Stats struct {
	Counters map[string]int64
}

func (s *Stats) Inc(k string) { s.Add(k, 1) }
func (s *Stats) Add(k string, n int64) {
	if s.Counters == nil {
		s.Counters = map[string]int64{}
	}
	s.Counters[k] += n
}
func (s *Stats) Merge(o *Stats) {
	for k, v := range o.Counters {
		s.Add(k, v)
	}
}

// Run is one chain driven through a sequence of blocks with monitors attached.
type Run struct {
	Chain           *Chain
	Spec            *WorldSpec
	Monitors        []Monitor
	Violations      []*Violation
	Stats           Stats
	BlockIdx        int
	TxIdx           int
	StopOnViolation bool
	CrashDB         *CrashDB // set when the run uses the crash-capable disk
	UseBankHook     bool
	SimStart        time.Time
	AppHashes       [][]byte
	Recorded        []Block // what was actually executed (generator mode fills it)
	MaxBlocks       int
	Log             []string // deterministic event log for the self-test (digests only)
	KeepLog         bool
	InfraErr        error // harness/infrastructure trouble (exit 2), never a violation
	LastExport      json.RawMessage
	ExportValidate  bool // run ModuleBasics.ValidateGenesis on every export (C12)
	// Hook lets a check act inside a block on the deliver state (e.g. rewrite stores into an older layout);
	// it is part of the block's content and is therefore re-run when a crashed block is re-executed.
	Hook func(r *Run, stage string)

	// NodeOpts: this node's operator settings (every restart of the node uses them again)
	NodeOpts NodeOpts

	currentBlockTxBytes []deliveredTx
}

type deliveredTx struct {
	raw    []byte
	direct sdk.Msg
	sig    sdk.Msg
	srv    sdk.Msg
	atomic []sdk.Msg
}

func (r *Run) Violate(property, check, signature, format string, args ...interface{}) {
	v := &Violation{Property: property, Check: check, Signature: signature, Message: fmt.Sprintf(format, args...), Block: r.BlockIdx, TxIndex: r.TxIdx}
	r.Violations = append(r.Violations, v)
}

func (r *Run) Failed() bool { return len(r.Violations) > 0 || r.InfraErr != nil }

// KeepLogs switches on the deterministic event log (self-test only). GlobalLog collects every run's lines.
var KeepLogs bool
var GlobalLog []string

func (r *Run) logf(format string, args ...interface{}) {
	if r.KeepLog || KeepLogs {
		line := fmt.Sprintf(format, args...)
		if r.KeepLog {
			r.Log = append(r.Log, line)
		}
		if KeepLogs {
			GlobalLog = append(GlobalLog, line)
		}
	}
}

// Start builds the genesis from the spec and initialises the chain.
func (r *Run) Start() *PanicInfo {
	appState, vals, err := BuildGenesis(r.Spec)
	if err != nil {
		r.InfraErr = err
		return nil
	}
	return r.StartFromState(appState, vals, 1)
}

func (r *Run) newChain() *Chain {
	var bank *BankFaultCtl
	if r.UseBankHook {
		if r.Chain != nil && r.Chain.Bank != nil {
			bank = r.Chain.Bank
		} else {
			bank = NewBankFaultCtl()
		}
	}
	if r.CrashDB != nil {
		return NewChainWith(r.CrashDB, bank, r.NodeOpts)
	}
	return NewChainWith(NewCrashDB(), bank, r.NodeOpts)
}

func (r *Run) StartFromState(appState json.RawMessage, vals []ValInfo, initialHeight int64) *PanicInfo {
	if r.CrashDB == nil {
		r.CrashDB = NewCrashDB()
	}
	r.Chain = r.newChain()
	r.Chain.Vals = vals
	r.SimStart = r.Spec.GenesisTime
	if pi := r.Chain.InitChain(appState, r.Spec.GenesisTime, initialHeight); pi != nil {
		return pi
	}
	for _, m := range r.Monitors {
		m.Init(r)
	}
	return nil
}

// Drive executes blocks from src until it ends, a violation stops the run, or the chain halts.
func (r *Run) Drive(src Source) {
	for {
		if r.MaxBlocks > 0 && r.BlockIdx >= r.MaxBlocks {
			break
		}
		if r.StopOnViolation && r.Failed() {
			break
		}
		if r.Chain.Halted != nil {
			break
		}
		b := src.NextBlock(r)
		if b == nil {
			break
		}
		r.ExecBlock(b, src)
		r.BlockIdx++
	}
	for _, m := range r.Monitors {
		m.Finish(r)
	}
}

// ExecBlock runs one block. Transactions come from b.Txs when src is nil, else from src.NextTx.
func (r *Run) ExecBlock(b *Block, src Source) {
	c := r.Chain
	rec := Block{DtNs: b.DtNs, BankFail: b.BankFail, FailDestOn: b.FailDestOn, FailDestOff: b.FailDestOff, FailBurn: b.FailBurn, Crash: b.Crash, Export: b.Export, Note: b.Note}
	defer func() { r.Recorded = append(r.Recorded, rec) }()
	r.TxIdx = -1
	r.currentBlockTxBytes = nil
	if c.Bank != nil {
		c.Bank.ResetBlock()
		for _, o := range b.BankFail {
			c.Bank.FailOrdinals[o] = true
		}
		for _, d := range b.FailDestOn {
			c.Bank.FailDest[d] = true
		}
		for _, d := range b.FailDestOff {
			delete(c.Bank.FailDest, d)
		}
		if b.FailBurn != nil {
			c.Bank.FailBurn = *b.FailBurn
		}
	}
	for _, m := range r.Monitors {
		m.BeforeBlock(r, b)
	}
	dt := b.DtNs
	if dt <= 0 {
		dt = 1
	}
	t := c.Now.Add(time.Duration(dt))
	r.Stats.Add("sim_ms", dt/1000000)
	bresp, pi := c.BeginBlock(t)
	if pi != nil {
		r.logf("H%d begin PANIC %s", c.Header.Height, pi.Value)
		for _, m := range r.Monitors {
			m.AfterBegin(r, bresp)
		}
		return
	}
	r.logf("H%d t=%d begin ev=%s", c.Header.Height, t.UnixNano(), DigestEvents(bresp.Events))
	for _, m := range r.Monitors {
		m.AfterBegin(r, bresp)
	}
	if r.Hook != nil {
		r.Hook(r, "after-begin")
	}
	i := 0
	for {
		if r.StopOnViolation && r.Failed() {
			break
		}
		var tx *Tx
		if src != nil {
			tx = src.NextTx(r, b)
		} else if i < len(b.Txs) {
			tx = &b.Txs[i]
		}
		if tx == nil {
			break
		}
		r.TxIdx = i
		r.ExecTx(tx)
		rec.Txs = append(rec.Txs, *tx)
		i++
	}
	r.TxIdx = -1
	eresp, pi := c.EndBlock()
	if pi != nil {
		r.logf("H%d end PANIC %s", c.Header.Height, pi.Value)
		for _, m := range r.Monitors {
			m.AfterEnd(r, eresp)
		}
		return
	}
	for _, m := range r.Monitors {
		m.AfterEnd(r, eresp)
	}
	if b.Crash != 0 {
		r.crashAndRecover(b)
	} else {
		hash, pi := c.Commit()
		if pi != nil {
			r.logf("H%d commit PANIC %s", c.Header.Height, pi.Value)
		} else {
			r.AppHashes = append(r.AppHashes, hash)
			r.logf("H%d commit %x end_ev=%s", c.Height, hash, DigestEvents(eresp.Events))
		}
	}
	if r.Chain.Halted == nil && b.Export {
		r.ExportRestart()
	}
	if r.Chain.Halted == nil {
		for _, m := range r.Monitors {
			m.AfterCommit(r)
		}
		// recorded or generated queries against the committed state
		qi := 0
		for {
			if r.StopOnViolation && r.Failed() {
				break
			}
			var q *Query
			if qs, ok := src.(QuerySource); ok && src != nil {
				q = qs.NextQuery(r, b)
			} else if qi < len(b.Queries) {
				q = &b.Queries[qi]
			}
			if q == nil {
				break
			}
			qi++
			rec.Queries = append(rec.Queries, *q)
			data, _ := base64.StdEncoding.DecodeString(q.Data)
			resp, pi := r.Chain.Query(q.Path, data)
			r.Stats.Inc("query")
			r.logf("  query %s code=%d", q.Path, resp.Code)
			for _, m := range r.Monitors {
				m.AfterQuery(r, q, resp, pi)
			}
		}
	}
}

// crashAndRecover kills the node before or inside Commit, restarts it over the surviving disk and
// re-executes the block (as Tendermint's handshake/replay does) without monitors.
func (r *Run) crashAndRecover(b *Block) {
	c := r.Chain
	hdr := c.Header
	txs := r.currentBlockTxBytes
	died := false
	if b.Crash < 0 {
		died = true // process dies after EndBlock, nothing of this block was written
		r.Stats.Inc("fault.crash_before_commit")
	} else {
		r.CrashDB.ResetCount()
		r.CrashDB.Arm(b.Crash)
		died = RunUntilCrash(func() { c.App.Commit() })
		r.CrashDB.Disarm()
		if died {
			r.Stats.Inc("fault.crash_in_commit")
			r.Stats.Inc(fmt.Sprintf("fault.crash_in_commit.k%d", b.Crash))
		} else {
			r.Stats.Inc("fault.crash_armed_not_reached")
		}
	}
	if !died {
		c.Height = hdr.Height
		c.InBlock = false
		c.Blocks++
		r.AppHashes = append(r.AppHashes, c.App.LastCommitID().Hash)
		r.logf("H%d commit %x", c.Height, c.App.LastCommitID().Hash)
		return
	}
	// restart
	vals, now := c.Vals, c.Now
	nc := r.newChain()
	nc.Vals = vals
	nc.Now = now
	nc.Blocks, nc.Txs = c.Blocks, c.Txs
	r.Chain = nc
	if nc.App.LastBlockHeight() >= hdr.Height {
		// the commit became durable before the crash point: nothing to replay
		nc.Height = nc.App.LastBlockHeight()
		r.AppHashes = append(r.AppHashes, nc.App.LastCommitID().Hash)
		r.Stats.Inc("fault.crash_after_durable")
		r.logf("H%d commit %x", nc.Height, nc.App.LastCommitID().Hash)
		return
	}
	if nc.App.LastBlockHeight() != hdr.Height-1 {
		r.Violate("C11", "crash-recovery", "restart-height", "after crash in block %d the node restarted at height %d", hdr.Height, nc.App.LastBlockHeight())
		return
	}
	nc.Height = hdr.Height - 1
	if c.Bank != nil {
		c.Bank.ResetBlock()
		for _, o := range b.BankFail {
			c.Bank.FailOrdinals[o] = true
		}
	}
	if _, pi := nc.BeginBlock(hdr.Time); pi != nil {
		return
	}
	if r.Hook != nil {
		r.Hook(r, "after-begin")
	}
	for _, bz := range txs {
		if bz.sig != nil {
			nc.DirectSig(bz.sig)
		} else if bz.atomic != nil {
			nc.DirectAtomic(bz.atomic)
		} else if bz.srv != nil {
			nc.DirectSrv(bz.srv)
		} else if bz.direct != nil {
			nc.Direct(bz.direct)
		} else {
			nc.DeliverTx(bz.raw)
		}
	}
	if _, pi := nc.EndBlock(); pi != nil {
		return
	}
	hash, _ := nc.Commit()
	r.AppHashes = append(r.AppHashes, hash)
	r.logf("H%d recommit %x", nc.Height, hash)
}

// ExportRestart: the operator exports the application state at the current height, validates it and starts a
// fresh chain (new disk) from it, which the run then continues on. Problems are reported as C12 violations.
func (r *Run) ExportRestart() {
	c := r.Chain
	var appState json.RawMessage
	var height int64
	pi := catch("ExportAppStateAndValidators", func() {
		exp, err := c.App.ExportAppStateAndValidators(false, nil)
		if err != nil {
			panic(err)
		}
		appState, height = exp.AppState, exp.Height
	})
	r.Stats.Inc("fault.export_restart")
	if pi != nil {
		r.Violate("C12", "export", "export-panic:"+pi.Site(), "exporting the state at height %d failed: %s", c.Height, pi.Value)
		return
	}
	if r.ExportValidate {
		if err := ValidateGenesisJSON(appState); err != nil {
			r.Violate("C12", "export", "exported-genesis-invalid:"+GenesisErrorClass(err), "exported genesis at height %d fails validation: %v", c.Height, err)
			if r.StopOnViolation {
				return
			}
		}
	}
	vals, now, blocks, txs, bank := c.Vals, c.Now, c.Blocks, c.Txs, c.Bank
	r.CrashDB = NewCrashDB()
	nc := NewChainWith(r.CrashDB, bank, r.NodeOpts)
	nc.Vals = vals
	nc.Blocks, nc.Txs = blocks, txs
	if pi := nc.InitChain(appState, now, height); pi != nil {
		r.Violate("C12", "import", "import-panic:"+pi.Site(), "a fresh chain cannot be initialised from the genesis exported at height %d: %s", c.Height, firstLine(pi.Value))
		return
	}
	nc.Header = tmproto.Header{ChainID: ChainID, Height: nc.Height, Time: now}
	r.Chain = nc
	r.LastExport = appState
}

// GenesisErrorClass maps a genesis validation error to a stable class name (part of violation signatures).
func GenesisErrorClass(err error) string {
	msg := err.Error()
	switch {
	case strings.Contains(msg, "vesting start-time cannot be before end-time"):
		return "vesting-account-start-not-before-end"
	case strings.Contains(msg, "when burn is set to true account cannot exist"), strings.Contains(msg, "when burn is set to false account must exist"):
		return "distributor-burn-state-shape"
	}
	// first words only
	if i := strings.Index(msg, ":"); i > 0 && i < 60 {
		msg = msg[:i]
	}
	if len(msg) > 60 {
		msg = msg[:60]
	}
	return strings.ReplaceAll(msg, " ", "-")
}
