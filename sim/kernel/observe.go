package kernel

import (
	"sort"

	disttypes "github.com/chain4energy/c4e-chain/x/cfedistributor/types"
	mintertypes "github.com/chain4energy/c4e-chain/x/cfeminter/types"
	vestingtypes "github.com/chain4energy/c4e-chain/x/cfevesting/types"
	"github.com/cosmos/cosmos-sdk/codec"
	sdk "github.com/cosmos/cosmos-sdk/types"
	authtypes "github.com/cosmos/cosmos-sdk/x/auth/types"
	banktypes "github.com/cosmos/cosmos-sdk/x/bank/types"
)

// Balances is address -> coins, read by iterating the real bank store.
type Balances map[string]sdk.Coins

func (c *Chain) AllBalances() Balances {
	out := Balances{}
	ctx := c.Ctx()
	c.App.BankKeeper.IterateAllBalances(ctx, func(addr sdk.AccAddress, coin sdk.Coin) bool {
		k := addr.String()
		out[k] = out[k].Add(coin)
		return false
	})
	return out
}

func (b Balances) Sum() sdk.Coins {
	s := sdk.NewCoins()
	for _, k := range b.Keys() {
		s = s.Add(b[k]...)
	}
	return s
}

func (b Balances) Keys() []string {
	ks := make([]string, 0, len(b))
	for k := range b {
		ks = append(ks, k)
	}
	sort.Strings(ks)
	return ks
}

// Diff returns the addresses whose balances differ between a and b, with per-denom signed deltas (b - a).
func (a Balances) Diff(b Balances) map[string]map[string]sdk.Int {
	out := map[string]map[string]sdk.Int{}
	keys := map[string]bool{}
	for k := range a {
		keys[k] = true
	}
	for k := range b {
		keys[k] = true
	}
	for k := range keys {
		denoms := map[string]bool{}
		for _, c := range a[k] {
			denoms[c.Denom] = true
		}
		for _, c := range b[k] {
			denoms[c.Denom] = true
		}
		for d := range denoms {
			delta := b[k].AmountOf(d).Sub(a[k].AmountOf(d))
			if !delta.IsZero() {
				if out[k] == nil {
					out[k] = map[string]sdk.Int{}
				}
				out[k][d] = delta
			}
		}
	}
	return out
}

func (c *Chain) Supply() sdk.Coins {
	ctx := c.Ctx()
	s := sdk.NewCoins()
	c.App.BankKeeper.IterateTotalSupply(ctx, func(coin sdk.Coin) bool {
		s = s.Add(coin)
		return false
	})
	return s
}

func (c *Chain) BalanceOf(addr sdk.AccAddress) sdk.Coins {
	return c.App.BankKeeper.GetAllBalances(c.Ctx(), addr)
}

func (c *Chain) ModuleBalance(name string) sdk.Coins {
	return c.BalanceOf(authtypes.NewModuleAddress(name))
}

// AccountsRaw snapshots every x/auth account as its stored bytes.
func (c *Chain) AccountsRaw() map[string][]byte {
	out := map[string][]byte{}
	ctx := c.Ctx()
	c.App.AccountKeeper.IterateAccounts(ctx, func(acc authtypes.AccountI) bool {
		bz, err := c.App.AccountKeeper.MarshalAccount(acc)
		if err != nil {
			bz = []byte("ERR:" + err.Error())
		}
		out[acc.GetAddress().String()] = bz
		return false
	})
	return out
}

// DistStates returns the distributor's recorded leftovers.
func (c *Chain) DistStates() []disttypes.State {
	return c.App.CfedistributorKeeper.GetAllStates(c.Ctx())
}

func DistMainAddr() sdk.AccAddress {
	return authtypes.NewModuleAddress(disttypes.DistributorMainAccount)
}

// StoreDump returns all key/values of one module store (deliver state inside a block).
func (c *Chain) StoreDump(storeKey string) map[string][]byte {
	out := map[string][]byte{}
	key := c.App.GetKey(storeKey)
	if key == nil {
		return out
	}
	st := c.Ctx().KVStore(key)
	it := st.Iterator(nil, nil)
	defer it.Close()
	for ; it.Valid(); it.Next() {
		out[string(it.Key())] = append([]byte(nil), it.Value()...)
	}
	return out
}

var _ = banktypes.ModuleName

// SafeLockedCoins: bank LockedCoins guarded against panics of the SDK's vesting arithmetic on degenerate accounts
// (the harness must survive states the chain itself can be put into).
func (c *Chain) SafeLockedCoins(addr sdk.AccAddress) (coins sdk.Coins, ok bool) {
	defer func() {
		if r := recover(); r != nil {
			coins, ok = sdk.NewCoins(), false
		}
	}()
	return c.App.BankKeeper.LockedCoins(c.Ctx(), addr), true
}

// Stored parameters, decoded from the module's own store (not through the keeper: what counts as "the stored
// configuration" is what a restarted node would read, and an oracle must not share a keeper-side cache with the code
// it judges).
func (c *Chain) storedParams(storeKey string, key []byte, into codec.ProtoMarshaler) {
	bz := c.Ctx().KVStore(c.App.GetKey(storeKey)).Get(key)
	if bz == nil {
		return
	}
	Enc().Marshaler.MustUnmarshal(bz, into)
}

func (c *Chain) MinterParams() (p mintertypes.Params) {
	c.storedParams(mintertypes.StoreKey, mintertypes.ParamsKey, &p)
	return
}

func (c *Chain) DistParams() (p disttypes.Params) {
	c.storedParams(disttypes.StoreKey, disttypes.ParamsKey, &p)
	return
}

func (c *Chain) VestingParams() (p vestingtypes.Params) {
	c.storedParams(vestingtypes.StoreKey, vestingtypes.ParamsKey, &p)
	return
}
