package kernel

import (
	"fmt"

	distkeeper "github.com/chain4energy/c4e-chain/x/cfedistributor/keeper"
	disttypes "github.com/chain4energy/c4e-chain/x/cfedistributor/types"
	sdk "github.com/cosmos/cosmos-sdk/types"
	dbm "github.com/tendermint/tm-db"
)

// ---------------------------------------------------------------------------------------------
// F-bank-inj: per-call failures of the distributor's bank operations (fail-before-effect).

// BankCall identifies one bank call of the distributor in a block.
type BankCall struct {
	Kind string // "m2m", "m2a", "a2m", "burn"
	From string
	To   string
}

// BankFaultCtl decides, per call, whether the distributor's bank operation fails.
// Decisions come from an explicit schedule (recorded in the trace), never from a PRNG at execution time.
type BankFaultCtl struct {
	// FailOrdinals: for the current block, the ordinals (0-based, counting all four mutating kinds) that fail.
	FailOrdinals map[int]bool
	// FailDest: persistent failure of payouts to a destination (module name or bech32), while the window is open.
	FailDest map[string]bool
	// FailBurn: burns fail while set.
	FailBurn bool
	ordinal  int
	Calls    []BankCall // calls seen in the current block (for traces / enumeration)
	Fired    map[string]int
}

func NewBankFaultCtl() *BankFaultCtl {
	return &BankFaultCtl{FailOrdinals: map[int]bool{}, FailDest: map[string]bool{}, Fired: map[string]int{}}
}

func (b *BankFaultCtl) ResetBlock() {
	b.ordinal = 0
	b.Calls = b.Calls[:0]
	b.FailOrdinals = map[int]bool{}
}

func (b *BankFaultCtl) decide(kind, from, to string) error {
	if b == nil {
		return nil
	}
	ord := b.ordinal
	b.ordinal++
	b.Calls = append(b.Calls, BankCall{kind, from, to})
	fail := b.FailOrdinals[ord]
	if !fail && (kind == "m2m" || kind == "m2a") && from == disttypes.DistributorMainAccount && b.FailDest[to] {
		fail = true
	}
	if !fail && kind == "burn" && b.FailBurn {
		fail = true
	}
	if fail {
		b.Fired[kind]++
		return fmt.Errorf("verif: injected bank failure (%s %s->%s #%d)", kind, from, to, ord)
	}
	return nil
}

type faultyBank struct {
	disttypes.BankKeeper
	ctl *BankFaultCtl
}

func (f faultyBank) SendCoinsFromAccountToModule(ctx sdk.Context, senderAddr sdk.AccAddress, recipientModule string, amt sdk.Coins) error {
	if err := f.ctl.decide("a2m", senderAddr.String(), recipientModule); err != nil {
		return err
	}
	return f.BankKeeper.SendCoinsFromAccountToModule(ctx, senderAddr, recipientModule, amt)
}
func (f faultyBank) SendCoinsFromModuleToAccount(ctx sdk.Context, senderModule string, recipientAddr sdk.AccAddress, amt sdk.Coins) error {
	if err := f.ctl.decide("m2a", senderModule, recipientAddr.String()); err != nil {
		return err
	}
	return f.BankKeeper.SendCoinsFromModuleToAccount(ctx, senderModule, recipientAddr, amt)
}
func (f faultyBank) SendCoinsFromModuleToModule(ctx sdk.Context, senderModule, recipientModule string, amt sdk.Coins) error {
	if err := f.ctl.decide("m2m", senderModule, recipientModule); err != nil {
		return err
	}
	return f.BankKeeper.SendCoinsFromModuleToModule(ctx, senderModule, recipientModule, amt)
}
func (f faultyBank) BurnCoins(ctx sdk.Context, moduleName string, amt sdk.Coins) error {
	if err := f.ctl.decide("burn", moduleName, ""); err != nil {
		return err
	}
	return f.BankKeeper.BurnCoins(ctx, moduleName, amt)
}

// installBankHook sets the guarded hook in /repo (build tag verif) for the next app.New. Caller holds appNewMu.
func installBankHook(ctl *BankFaultCtl) {
	if ctl == nil {
		distkeeper.VerifBankKeeperWrapper = nil
		return
	}
	distkeeper.VerifBankKeeperWrapper = func(bk disttypes.BankKeeper) disttypes.BankKeeper {
		return faultyBank{BankKeeper: bk, ctl: ctl}
	}
}

// ---------------------------------------------------------------------------------------------
// F-crash: a dbm.DB whose k-th batch write (counted from Arm) kills the "process".

type crashSignal struct{ at int }

// CrashDB wraps a MemDB; only writes that completed before the crash survive (each batch write is atomic,
// as on a real LevelDB; a Commit is many batch writes, so a crash inside it is torn across stores).
type CrashDB struct {
	dbm.DB
	armed     bool
	countdown int
	Writes    int // batch writes since last ResetCount
}

func NewCrashDB() *CrashDB { return &CrashDB{DB: dbm.NewMemDB()} }

// Arm makes the k-th (1-based) batch write from now panic with a crash signal *before* taking effect.
func (c *CrashDB) Arm(k int)   { c.armed = true; c.countdown = k }
func (c *CrashDB) Disarm()     { c.armed = false }
func (c *CrashDB) ResetCount() { c.Writes = 0 }

func (c *CrashDB) tick() {
	c.Writes++
	if c.armed {
		c.countdown--
		if c.countdown <= 0 {
			c.armed = false
			panic(crashSignal{at: c.Writes})
		}
	}
}

func (c *CrashDB) NewBatch() dbm.Batch { return &crashBatch{Batch: c.DB.NewBatch(), db: c} }

// SetSync / Set directly on the DB (outside batches) are also durable write points.
func (c *CrashDB) Set(k, v []byte) error     { c.tick(); return c.DB.Set(k, v) }
func (c *CrashDB) SetSync(k, v []byte) error { c.tick(); return c.DB.SetSync(k, v) }
func (c *CrashDB) Delete(k []byte) error     { c.tick(); return c.DB.Delete(k) }
func (c *CrashDB) DeleteSync(k []byte) error { c.tick(); return c.DB.DeleteSync(k) }

type crashBatch struct {
	dbm.Batch
	db *CrashDB
}

func (b *crashBatch) Write() error     { b.db.tick(); return b.Batch.Write() }
func (b *crashBatch) WriteSync() error { b.db.tick(); return b.Batch.WriteSync() }

// RunUntilCrash runs f; returns true when the simulated process died inside it.
func RunUntilCrash(f func()) (crashed bool) {
	defer func() {
		if r := recover(); r != nil {
			if _, ok := r.(crashSignal); ok {
				crashed = true
				return
			}
			panic(r)
		}
	}()
	f()
	return false
}
