package kernel

import sdkerrors "github.com/cosmos/cosmos-sdk/types/errors"

func sdkerrorsABCIInfo(err error) (string, uint32, string) { return sdkerrors.ABCIInfo(err, false) }
