package kernel

import (
	"encoding/json"
	"fmt"
	"sort"
	"time"

	c4eapp "github.com/chain4energy/c4e-chain/app"
	disttypes "github.com/chain4energy/c4e-chain/x/cfedistributor/types"
	mintertypes "github.com/chain4energy/c4e-chain/x/cfeminter/types"
	vestingtypes "github.com/chain4energy/c4e-chain/x/cfevesting/types"
	codectypes "github.com/cosmos/cosmos-sdk/codec/types"
	cryptocodec "github.com/cosmos/cosmos-sdk/crypto/codec"
	"github.com/cosmos/cosmos-sdk/crypto/keys/ed25519"
	"github.com/cosmos/cosmos-sdk/crypto/keys/secp256k1"
	cryptotypes "github.com/cosmos/cosmos-sdk/crypto/types"
	sdk "github.com/cosmos/cosmos-sdk/types"
	authtypes "github.com/cosmos/cosmos-sdk/x/auth/types"
	authvesting "github.com/cosmos/cosmos-sdk/x/auth/vesting/types"
	banktypes "github.com/cosmos/cosmos-sdk/x/bank/types"
	crisistypes "github.com/cosmos/cosmos-sdk/x/crisis/types"
	govtypes "github.com/cosmos/cosmos-sdk/x/gov/types"
	govv1 "github.com/cosmos/cosmos-sdk/x/gov/types/v1"
	slashingtypes "github.com/cosmos/cosmos-sdk/x/slashing/types"
	stakingtypes "github.com/cosmos/cosmos-sdk/x/staking/types"
)

// Actor keys are derived from their name only, so traces stay valid when steps or actors are removed.
func ActorKey(name string) cryptotypes.PrivKey {
	return secp256k1.GenPrivKeyFromSecret([]byte("verif-actor:" + name))
}
func ActorAddr(name string) sdk.AccAddress { return sdk.AccAddress(ActorKey(name).PubKey().Address()) }
func ActorBech(name string) string         { return ActorAddr(name).String() }

func ClientName(i int) string { return fmt.Sprintf("client-%d", i) }
func FreshName(i int) string  { return fmt.Sprintf("fresh-%d", i) }

func ValKey(i int) cryptotypes.PrivKey {
	return ed25519.GenPrivKeyFromSecret([]byte(fmt.Sprintf("verif-val:%d", i)))
}

func ModuleAddr(name string) sdk.AccAddress { return authtypes.NewModuleAddress(name) }

// BalSpec gives coins to an address at genesis. Exactly one of Actor / Module / Addr is set.
type BalSpec struct {
	Actor  string `json:"actor,omitempty"`
	Module string `json:"module,omitempty"`
	Addr   string `json:"addr,omitempty"`
	Coins  string `json:"coins"`
}

func (b BalSpec) Address() sdk.AccAddress {
	switch {
	case b.Actor != "":
		return ActorAddr(b.Actor)
	case b.Module != "":
		return ModuleAddr(b.Module)
	default:
		a, err := sdk.AccAddressFromBech32(b.Addr)
		if err != nil {
			panic(err)
		}
		return a
	}
}

// VAccSpec is a genesis continuous vesting account (its balance comes from Balances).
type VAccSpec struct {
	Actor            string `json:"actor"`
	Addr             string `json:"addr,omitempty"` // explicit bech32 address (no key) instead of an actor
	DelegatedVesting string `json:"delegated_vesting,omitempty"`
	DelegatedFree    string `json:"delegated_free,omitempty"`
	OriginalVesting  string `json:"original_vesting"`
	Start            int64  `json:"start"`
	End              int64  `json:"end"`
	Delayed          bool   `json:"delayed,omitempty"`
}

// WorldSpec is everything needed to rebuild the genesis deterministically.
type WorldSpec struct {
	GenesisTime     time.Time       `json:"genesis_time"`
	Clients         []string        `json:"clients"` // actor names that exist as base accounts at genesis
	NoPubKey        []string        `json:"no_pubkey,omitempty"`
	NumVals         int             `json:"num_vals"`
	BondDenom       string          `json:"bond_denom"`
	ValTokens       string          `json:"val_tokens"` // per validator, delegated by Clients[0]
	Balances        []BalSpec       `json:"balances"`
	VestingAccounts []VAccSpec      `json:"vesting_accounts,omitempty"`
	Minter          json.RawMessage `json:"minter,omitempty"`      // cfeminter GenesisState (proto JSON); default when empty
	Distributor     json.RawMessage `json:"distributor,omitempty"` // cfedistributor GenesisState
	Vesting         json.RawMessage `json:"vesting,omitempty"`     // cfevesting GenesisState
	VotingPeriodSec int64           `json:"voting_period_sec"`
	NoICA           bool            `json:"no_ica,omitempty"`
}

func MustCoins(s string) sdk.Coins {
	if s == "" {
		return sdk.NewCoins()
	}
	c, err := sdk.ParseCoinsNormalized(s)
	if err != nil {
		panic(fmt.Sprintf("bad coins %q: %v", s, err))
	}
	return c
}

// BuildGenesis turns a spec into the app state; it returns an error (never panics) for unusable specs.
func BuildGenesis(spec *WorldSpec) (appState json.RawMessage, vals []ValInfo, err error) {
	defer func() {
		if r := recover(); r != nil {
			err = fmt.Errorf("BuildGenesis: %v", r)
		}
	}()
	enc := Enc()
	cdc := enc.Marshaler
	gs := c4eapp.NewDefaultGenesisState(cdc)

	// --- auth
	noPk := map[string]bool{}
	for _, n := range spec.NoPubKey {
		noPk[n] = true
	}
	var accs []authtypes.GenesisAccount
	vaccByActor := map[string]VAccSpec{}
	for _, va := range spec.VestingAccounts {
		vaccByActor[va.Actor] = va
	}
	seen := map[string]bool{}
	addAcc := func(name string) {
		if seen[name] {
			return
		}
		seen[name] = true
		var pk cryptotypes.PubKey
		if !noPk[name] {
			pk = ActorKey(name).PubKey()
		}
		ba := authtypes.NewBaseAccount(ActorAddr(name), pk, 0, 0)
		if va, ok := vaccByActor[name]; ok {
			bva := authvesting.NewBaseVestingAccount(ba, MustCoins(va.OriginalVesting), va.End)
			if va.Delayed {
				accs = append(accs, authvesting.NewDelayedVestingAccountRaw(bva))
			} else {
				accs = append(accs, authvesting.NewContinuousVestingAccountRaw(bva, va.Start))
			}
			return
		}
		accs = append(accs, ba)
	}
	for _, n := range spec.Clients {
		addAcc(n)
	}
	for _, va := range spec.VestingAccounts {
		if va.Addr != "" {
			a, e := sdk.AccAddressFromBech32(va.Addr)
			if e != nil {
				return nil, nil, e
			}
			ba := authtypes.NewBaseAccount(a, nil, 0, 0)
			bva := authvesting.NewBaseVestingAccount(ba, MustCoins(va.OriginalVesting), va.End)
			bva.DelegatedVesting, bva.DelegatedFree = MustCoins(va.DelegatedVesting), MustCoins(va.DelegatedFree)
			if va.Delayed {
				accs = append(accs, authvesting.NewDelayedVestingAccountRaw(bva))
			} else {
				accs = append(accs, authvesting.NewContinuousVestingAccountRaw(bva, va.Start))
			}
			continue
		}
		addAcc(va.Actor)
	}
	authGen := authtypes.NewGenesisState(authtypes.DefaultParams(), accs)
	gs[authtypes.ModuleName] = cdc.MustMarshalJSON(authGen)

	// --- staking
	valTokens, ok := sdk.NewIntFromString(spec.ValTokens)
	if !ok {
		return nil, nil, fmt.Errorf("bad val tokens")
	}
	var validators []stakingtypes.Validator
	var delegations []stakingtypes.Delegation
	if len(spec.Clients) == 0 {
		return nil, nil, fmt.Errorf("need a client")
	}
	delegator := ActorAddr(spec.Clients[0])
	for i := 0; i < spec.NumVals; i++ {
		pk := ValKey(i).PubKey()
		pkAny, e := codectypes.NewAnyWithValue(pk)
		if e != nil {
			return nil, nil, e
		}
		tmpk, e := cryptocodec.ToTmPubKeyInterface(pk)
		if e != nil {
			return nil, nil, e
		}
		valAddr := sdk.ValAddress(tmpk.Address())
		validators = append(validators, stakingtypes.Validator{
			OperatorAddress: valAddr.String(), ConsensusPubkey: pkAny, Status: stakingtypes.Bonded,
			Tokens: valTokens, DelegatorShares: sdk.NewDecFromInt(valTokens),
			UnbondingTime: time.Unix(0, 0).UTC(), Commission: stakingtypes.NewCommission(sdk.ZeroDec(), sdk.ZeroDec(), sdk.ZeroDec()),
			MinSelfDelegation: sdk.ZeroInt(),
		})
		delegations = append(delegations, stakingtypes.NewDelegation(delegator, valAddr, sdk.NewDecFromInt(valTokens)))
		vals = append(vals, ValInfo{ConsAddr: tmpk.Address(), Power: sdk.TokensToConsensusPower(valTokens, sdk.DefaultPowerReduction)})
	}
	// slashing: genesis-bonded validators need signing infos (the bonded hook does not run for them)
	sg := slashingtypes.DefaultGenesisState()
	for i := 0; i < spec.NumVals; i++ {
		tmpk, _ := cryptocodec.ToTmPubKeyInterface(ValKey(i).PubKey())
		cons := sdk.ConsAddress(tmpk.Address())
		sg.SigningInfos = append(sg.SigningInfos, slashingtypes.SigningInfo{Address: cons.String(),
			ValidatorSigningInfo: slashingtypes.NewValidatorSigningInfo(cons, 0, 0, time.Unix(0, 0).UTC(), false, 0)})
	}
	gs[slashingtypes.ModuleName] = cdc.MustMarshalJSON(sg)
	sp := stakingtypes.DefaultParams()
	sp.BondDenom = spec.BondDenom
	gs[stakingtypes.ModuleName] = cdc.MustMarshalJSON(stakingtypes.NewGenesisState(sp, validators, delegations))

	// --- bank
	balMap := map[string]sdk.Coins{}
	add := func(addr sdk.AccAddress, c sdk.Coins) {
		k := addr.String()
		balMap[k] = balMap[k].Add(c...)
	}
	for _, b := range spec.Balances {
		add(b.Address(), MustCoins(b.Coins))
	}
	if spec.NumVals > 0 {
		add(ModuleAddr(stakingtypes.BondedPoolName), sdk.NewCoins(sdk.NewCoin(spec.BondDenom, valTokens.MulRaw(int64(spec.NumVals)))))
	}
	var balances []banktypes.Balance
	supply := sdk.NewCoins()
	keys := make([]string, 0, len(balMap))
	for k := range balMap {
		keys = append(keys, k)
	}
	sort.Strings(keys)
	for _, k := range keys {
		if balMap[k].IsZero() {
			continue
		}
		balances = append(balances, banktypes.Balance{Address: k, Coins: balMap[k]})
		supply = supply.Add(balMap[k]...)
	}
	gs[banktypes.ModuleName] = cdc.MustMarshalJSON(banktypes.NewGenesisState(banktypes.DefaultGenesisState().Params, balances, supply, []banktypes.Metadata{}))

	// --- gov
	gg := govv1.DefaultGenesisState()
	vp := time.Duration(spec.VotingPeriodSec) * time.Second
	if vp <= 0 {
		vp = time.Hour
	}
	gg.VotingParams.VotingPeriod = &vp
	gg.DepositParams.MinDeposit = sdk.NewCoins(sdk.NewCoin(spec.BondDenom, sdk.NewInt(1)))
	gs[govtypes.ModuleName] = cdc.MustMarshalJSON(gg)

	// --- crisis
	cg := crisistypes.DefaultGenesisState()
	cg.ConstantFee = sdk.NewCoin(spec.BondDenom, sdk.NewInt(1000))
	gs[crisistypes.ModuleName] = cdc.MustMarshalJSON(cg)

	// --- custom modules
	if len(spec.Minter) > 0 {
		gs[mintertypes.ModuleName] = spec.Minter
	} else {
		mg := mintertypes.DefaultGenesis()
		mg.Params.MintDenom = spec.BondDenom
		mg.Params.StartTime = spec.GenesisTime
		mg.MinterState.LastMintBlockTime = spec.GenesisTime
		gs[mintertypes.ModuleName] = cdc.MustMarshalJSON(mg)
	}
	if len(spec.Distributor) > 0 {
		gs[disttypes.ModuleName] = spec.Distributor
	}
	if len(spec.Vesting) > 0 {
		gs[vestingtypes.ModuleName] = spec.Vesting
	} else {
		vg := vestingtypes.DefaultGenesis()
		vg.Params.Denom = spec.BondDenom
		gs[vestingtypes.ModuleName] = cdc.MustMarshalJSON(vg)
	}
	if spec.NoICA {
		delete(gs, "interchainaccounts")
	}
	bz, e := json.Marshal(gs)
	if e != nil {
		return nil, nil, e
	}
	return bz, vals, nil
}

// ValidateGenesisJSON runs the app's own ModuleBasics.ValidateGenesis over an app state.
func ValidateGenesisJSON(appState json.RawMessage) (err error) {
	defer func() {
		if r := recover(); r != nil {
			err = fmt.Errorf("ValidateGenesis panic: %v", r)
		}
	}()
	var gs map[string]json.RawMessage
	if e := json.Unmarshal(appState, &gs); e != nil {
		return e
	}
	enc := Enc()
	return c4eapp.ModuleBasics.ValidateGenesis(enc.Marshaler, enc.TxConfig, gs)
}
