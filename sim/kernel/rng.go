package kernel

import (
	"math/big"
	"sort"
)

// Rng is the single source of every random choice of a run (xoshiro-like via splitmix64).
// It never reads a clock and is never touched by logging paths.
type Rng struct{ s uint64 }

func Mix(vals ...uint64) uint64 {
	h := uint64(0x9e3779b97f4a7c15)
	for _, v := range vals {
		h ^= v + 0x9e3779b97f4a7c15 + (h << 6) + (h >> 2)
		h = splitmix(&h)
	}
	return h
}

func splitmix(s *uint64) uint64 {
	*s += 0x9e3779b97f4a7c15
	z := *s
	z = (z ^ (z >> 30)) * 0xbf58476d1ce4e5b9
	z = (z ^ (z >> 27)) * 0x94d049bb133111eb
	return z ^ (z >> 31)
}

func NewRng(seed uint64) *Rng { return &Rng{s: seed} }

func (r *Rng) U64() uint64 { return splitmix(&r.s) }

// Fork derives an independent stream (so adding draws in one generator does not shift another).
func (r *Rng) Fork(label uint64) *Rng { return &Rng{s: Mix(r.U64(), label)} }

func (r *Rng) Intn(n int) int {
	if n <= 0 {
		return 0
	}
	return int(r.U64() % uint64(n))
}
func (r *Rng) I64n(n int64) int64 {
	if n <= 0 {
		return 0
	}
	return int64(r.U64() % uint64(n))
}
func (r *Rng) Range(lo, hi int) int { // inclusive
	if hi <= lo {
		return lo
	}
	return lo + r.Intn(hi-lo+1)
}
func (r *Rng) Bool() bool       { return r.U64()&1 == 1 }
func (r *Rng) P(p float64) bool { return float64(r.U64()>>11)/float64(1<<53) < p }
func (r *Rng) F() float64       { return float64(r.U64()>>11) / float64(1<<53) }
func (r *Rng) Pick(n int) int   { return r.Intn(n) }
func (r *Rng) PickStr(xs []string) string {
	if len(xs) == 0 {
		return ""
	}
	return xs[r.Intn(len(xs))]
}

// BigBelow returns uniform in [0, n).
func (r *Rng) BigBelow(n *big.Int) *big.Int {
	if n.Sign() <= 0 {
		return new(big.Int)
	}
	words := (n.BitLen() + 63) / 64
	buf := make([]byte, 0, words*8+8)
	for i := 0; i < words+1; i++ {
		v := r.U64()
		for k := 0; k < 8; k++ {
			buf = append(buf, byte(v>>(8*k)))
		}
	}
	x := new(big.Int).SetBytes(buf)
	return x.Mod(x, n)
}

// BigLogUniform returns a value in [1, 10^maxExp] whose magnitude is log-uniform; with some bias
// to "interesting" shapes (powers of ten, 2^63 neighbourhood, ...9 / ...1 endings).
func (r *Rng) BigLogUniform(maxExp int) *big.Int {
	e := r.Range(0, maxExp)
	lim := new(big.Int).Exp(big.NewInt(10), big.NewInt(int64(e)), nil)
	switch r.Intn(10) {
	case 0:
		return lim
	case 1:
		if lim.Cmp(big.NewInt(1)) > 0 {
			return new(big.Int).Sub(lim, big.NewInt(1))
		}
		return lim
	case 2:
		return new(big.Int).Add(lim, big.NewInt(1))
	}
	v := r.BigBelow(new(big.Int).Mul(lim, big.NewInt(9)))
	v.Add(v, lim)
	if v.Sign() == 0 {
		v.SetInt64(1)
	}
	// cap
	cap_ := new(big.Int).Exp(big.NewInt(10), big.NewInt(int64(maxExp)), nil)
	if v.Cmp(cap_) > 0 {
		v.Set(cap_)
	}
	return v
}

func (r *Rng) Shuffle(n int, swap func(i, j int)) {
	for i := n - 1; i > 0; i-- {
		j := r.Intn(i + 1)
		swap(i, j)
	}
}

func SortedKeys[V any](m map[string]V) []string {
	ks := make([]string, 0, len(m))
	for k := range m {
		ks = append(ks, k)
	}
	sort.Strings(ks)
	return ks
}
