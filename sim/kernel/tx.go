package kernel

import (
	"encoding/json"
	"fmt"

	vestingtypes "github.com/chain4energy/c4e-chain/x/cfevesting/types"
	"github.com/cosmos/cosmos-sdk/client"
	codectypes "github.com/cosmos/cosmos-sdk/codec/types"
	sdk "github.com/cosmos/cosmos-sdk/types"
	txtypes "github.com/cosmos/cosmos-sdk/types/tx"
	"github.com/cosmos/cosmos-sdk/types/tx/signing"
	authsigning "github.com/cosmos/cosmos-sdk/x/auth/signing"
)

// MsgToJSON renders a message as proto-JSON Any (the recorded, replayable form).
func MsgToJSON(msg sdk.Msg) (json.RawMessage, error) {
	bz, err := Enc().Marshaler.MarshalInterfaceJSON(msg)
	return bz, err
}

func MsgFromJSON(bz json.RawMessage) (sdk.Msg, error) {
	var msg sdk.Msg
	if err := Enc().Marshaler.UnmarshalInterfaceJSON(bz, &msg); err != nil {
		return nil, err
	}
	return msg, nil
}

// UnpackAnys resolves nested Any values (needed before ValidateBasic/handlers see cached values).
func UnpackMsg(msg sdk.Msg) error {
	if u, ok := msg.(codectypes.UnpackInterfacesMessage); ok {
		return u.UnpackInterfaces(Enc().InterfaceRegistry)
	}
	return nil
}

// AccountNumSeq reads number and sequence of the signer from the chain's current (deliver) state.
func (c *Chain) AccountNumSeq(addr sdk.AccAddress) (num, seq uint64, exists bool) {
	acc := c.App.AccountKeeper.GetAccount(c.Ctx(), addr)
	if acc == nil {
		return 0, 0, false
	}
	return acc.GetAccountNumber(), acc.GetSequence(), true
}

// BuildTx signs msgs with the named actor in SIGN_MODE_DIRECT. seqDelta lets the caller replay stale sequences.
func (c *Chain) BuildTx(signer string, msgs []sdk.Msg, fee sdk.Coins, gas uint64, seqDelta int64) (txBytes []byte, err error) {
	defer func() {
		if r := recover(); r != nil {
			err = fmt.Errorf("BuildTx panic: %v", r)
		}
	}()
	txCfg := Enc().TxConfig
	priv := ActorKey(signer)
	addr := sdk.AccAddress(priv.PubKey().Address())
	num, seq, _ := c.AccountNumSeq(addr)
	s := int64(seq) + seqDelta
	if s < 0 {
		s = 0
	}
	seq = uint64(s)
	var b client.TxBuilder = txCfg.NewTxBuilder()
	if err := b.SetMsgs(msgs...); err != nil {
		return nil, err
	}
	b.SetFeeAmount(fee)
	b.SetGasLimit(gas)
	sigV2 := signing.SignatureV2{
		PubKey:   priv.PubKey(),
		Data:     &signing.SingleSignatureData{SignMode: signing.SignMode_SIGN_MODE_DIRECT},
		Sequence: seq,
	}
	if err := b.SetSignatures(sigV2); err != nil {
		return nil, err
	}
	signerData := authsigning.SignerData{ChainID: ChainID, AccountNumber: num, Sequence: seq, PubKey: priv.PubKey(), Address: addr.String()}
	signBytes, err := txCfg.SignModeHandler().GetSignBytes(signing.SignMode_SIGN_MODE_DIRECT, signerData, b.GetTx())
	if err != nil {
		return nil, err
	}
	sig, err := priv.Sign(signBytes)
	if err != nil {
		return nil, err
	}
	sigV2.Data = &signing.SingleSignatureData{SignMode: signing.SignMode_SIGN_MODE_DIRECT, Signature: sig}
	if err := b.SetSignatures(sigV2); err != nil {
		return nil, err
	}
	return txCfg.TxEncoder()(b.GetTx())
}

// BuildSimTx builds the bytes a client hands to the node's Simulate service: the messages, one signer info per
// signer with the account's current sequence, NO public key and an empty signature. In simulate mode the ante
// chain accepts that (no key is set, no signature is verified), also for signers that are module accounts such as
// the x/gov authority - so anybody with RPC access can have any message executed on a throw-away state.
func (c *Chain) BuildSimTx(msgs []sdk.Msg) (txBytes []byte, err error) {
	defer func() {
		if r := recover(); r != nil {
			err = fmt.Errorf("BuildSimTx panic: %v", r)
		}
	}()
	cdc := Enc().Marshaler
	body := &txtypes.TxBody{}
	seen := map[string]bool{}
	auth := &txtypes.AuthInfo{Fee: &txtypes.Fee{GasLimit: 5_000_000}}
	var sigs [][]byte
	for _, m := range msgs {
		any, err := codectypes.NewAnyWithValue(m)
		if err != nil {
			return nil, err
		}
		body.Messages = append(body.Messages, any)
		for _, a := range m.GetSigners() {
			if seen[string(a)] {
				continue
			}
			seen[string(a)] = true
			_, seq, _ := c.AccountNumSeq(a)
			auth.SignerInfos = append(auth.SignerInfos, &txtypes.SignerInfo{
				ModeInfo: &txtypes.ModeInfo{Sum: &txtypes.ModeInfo_Single_{Single: &txtypes.ModeInfo_Single{Mode: signing.SignMode_SIGN_MODE_DIRECT}}},
				Sequence: seq,
			})
			sigs = append(sigs, []byte{})
		}
	}
	bb, err := cdc.Marshal(body)
	if err != nil {
		return nil, err
	}
	ab, err := cdc.Marshal(auth)
	if err != nil {
		return nil, err
	}
	return cdc.Marshal(&txtypes.TxRaw{BodyBytes: bb, AuthInfoBytes: ab, Signatures: sigs})
}

// SimulateTx runs the transaction the way the node's Simulate RPC does (all ante handlers in simulate mode and
// every message handler, on a branch of the check state that is thrown away).
func (c *Chain) SimulateTx(bz []byte) (res *sdk.Result, err error, pi *PanicInfo) {
	pi = catch("Simulate", func() { _, res, err = c.App.Simulate(bz) })
	return
}

// CanonMsgs returns copies of the custom-module messages with their address fields in canonical (lower-case) bech32;
// fields that do not decode are left as they are. Messages of other modules are passed through.
func CanonMsgs(msgs []sdk.Msg) []sdk.Msg {
	canon := func(s *string) {
		if a, err := sdk.AccAddressFromBech32(*s); err == nil {
			*s = a.String()
		}
	}
	out := make([]sdk.Msg, len(msgs))
	for i, m := range msgs {
		out[i] = m
		bz, err := Enc().Marshaler.MarshalInterface(m) // a byte-exact copy (JSON would rewrite strings that are not valid UTF-8)
		if err != nil {
			continue
		}
		var c sdk.Msg
		if err := Enc().Marshaler.UnmarshalInterface(bz, &c); err != nil {
			continue
		}
		switch t := c.(type) {
		case *vestingtypes.MsgCreateVestingPool:
			canon(&t.Owner)
		case *vestingtypes.MsgWithdrawAllAvailable:
			canon(&t.Owner)
		case *vestingtypes.MsgSendToVestingAccount:
			canon(&t.Owner)
			canon(&t.ToAddress)
		case *vestingtypes.MsgCreateVestingAccount:
			canon(&t.FromAddress)
			canon(&t.ToAddress)
		case *vestingtypes.MsgSplitVesting:
			canon(&t.FromAddress)
			canon(&t.ToAddress)
		case *vestingtypes.MsgMoveAvailableVesting:
			canon(&t.FromAddress)
			canon(&t.ToAddress)
		case *vestingtypes.MsgMoveAvailableVestingByDenoms:
			canon(&t.FromAddress)
			canon(&t.ToAddress)
		default:
			continue
		}
		_ = UnpackMsg(c)
		out[i] = c
	}
	return out
}
