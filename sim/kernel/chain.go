package kernel

import (
	"encoding/json"
	"fmt"
	"runtime/debug"
	"strings"
	"sync"
	"time"

	c4eapp "github.com/chain4energy/c4e-chain/app"
	appparams "github.com/chain4energy/c4e-chain/app/params"
	distkeeper "github.com/chain4energy/c4e-chain/x/cfedistributor/keeper"
	disttypes "github.com/chain4energy/c4e-chain/x/cfedistributor/types"
	minterkeeper "github.com/chain4energy/c4e-chain/x/cfeminter/keeper"
	mintertypes "github.com/chain4energy/c4e-chain/x/cfeminter/types"
	sigkeeper "github.com/chain4energy/c4e-chain/x/cfesignature/keeper"
	sigtypes "github.com/chain4energy/c4e-chain/x/cfesignature/types"
	sdk "github.com/cosmos/cosmos-sdk/types"
	"github.com/cosmos/cosmos-sdk/x/crisis"
	abci "github.com/tendermint/tendermint/abci/types"
	"github.com/tendermint/tendermint/libs/log"
	tmproto "github.com/tendermint/tendermint/proto/tendermint/types"
	dbm "github.com/tendermint/tm-db"
)

const ChainID = "verif-sim-1"

var (
	encOnce sync.Once
	encCfg  appparams.EncodingConfig
)

// Enc returns the (process-wide, read-only) encoding config of the real app.
func Enc() appparams.EncodingConfig {
	encOnce.Do(func() { encCfg = appparams.EncodingConfig(c4eapp.MakeEncodingConfig()) })
	return encCfg
}

// PanicInfo describes a panic that escaped an ABCI call (a chain halt in a deployment).
type PanicInfo struct {
	Where string `json:"where"`
	Value string `json:"value"`
	Stack string `json:"stack"`
}

func (p *PanicInfo) String() string {
	if p == nil {
		return ""
	}
	return p.Where + ": " + p.Value
}

// InRepoBlockLogic says whether the panic passed through custom-module begin/end block code or upgrades.
func (p *PanicInfo) InRepoBlockLogic() bool {
	return strings.Contains(p.Stack, "c4e-chain/x/") || strings.Contains(p.Stack, "c4e-chain/app/upgrades") ||
		strings.Contains(p.Stack, "/repo/x/") || strings.Contains(p.Stack, "/repo/app/")
}

type ValInfo struct {
	ConsAddr []byte
	Power    int64
}

// Chain drives one real app.App instance over ABCI with a simulated clock.
type Chain struct {
	App     *c4eapp.App
	DB      dbm.DB
	Height  int64
	Now     time.Time
	Header  tmproto.Header
	InBlock bool
	Vals    []ValInfo
	Bank    *BankFaultCtl
	Halted  *PanicInfo

	Blocks int
	Txs    int
}

var appNewMu sync.Mutex

// NodeOpts are settings an operator chooses per node; they must not influence what the node computes.
type NodeOpts struct {
	SkipGenesisInvariants bool `json:"skip_genesis_invariants,omitempty"` // --x-crisis-skip-assert-invariants
	InvCheckPeriod        uint `json:"inv_check_period,omitempty"`        // --inv-check-period
}

type nodeAppOpts struct{ o NodeOpts }

func (n nodeAppOpts) Get(key string) interface{} {
	if key == crisis.FlagSkipGenesisInvariants {
		return n.o.SkipGenesisInvariants
	}
	return nil
}

// NewChain builds a real app over db (a restart when db already holds committed state).
func NewChain(db dbm.DB, bank *BankFaultCtl) *Chain { return NewChainWith(db, bank, NodeOpts{}) }

func NewChainWith(db dbm.DB, bank *BankFaultCtl, no NodeOpts) *Chain {
	appNewMu.Lock()
	defer appNewMu.Unlock()
	installBankHook(bank)
	defer installBankHook(nil)
	a := c4eapp.New(log.NewNopLogger(), db, nil, true, map[int64]bool{}, "/nonexistent-verif-home", no.InvCheckPeriod, Enc(), nodeAppOpts{no})
	c := &Chain{App: a, DB: db, Bank: bank}
	c.Height = a.LastBlockHeight()
	return c
}

func catch(where string, f func()) (pi *PanicInfo) {
	defer func() {
		if r := recover(); r != nil {
			if cs, ok := r.(crashSignal); ok {
				panic(cs) // simulated process death: propagate to the crash driver
			}
			pi = &PanicInfo{Where: where, Value: fmt.Sprint(r), Stack: string(debug.Stack())}
		}
	}()
	f()
	return nil
}

var DefaultConsensusParams = &abci.ConsensusParams{
	Block:     &abci.BlockParams{MaxBytes: 20000000, MaxGas: -1},
	Evidence:  &tmproto.EvidenceParams{MaxAgeNumBlocks: 302400, MaxAgeDuration: 504 * time.Hour, MaxBytes: 10000},
	Validator: &tmproto.ValidatorParams{PubKeyTypes: []string{"ed25519"}},
}

// InitChain initialises from an app genesis state; returns a panic (e.g. genesis rejected) instead of crashing.
func (c *Chain) InitChain(appState json.RawMessage, genesisTime time.Time, initialHeight int64) *PanicInfo {
	c.Now = genesisTime
	pi := catch("InitChain", func() {
		c.App.InitChain(abci.RequestInitChain{
			Time:            genesisTime,
			ChainId:         ChainID,
			ConsensusParams: DefaultConsensusParams,
			Validators:      []abci.ValidatorUpdate{},
			AppStateBytes:   appState,
			InitialHeight:   initialHeight,
		})
	})
	if pi != nil {
		return pi
	}
	if initialHeight > 1 {
		c.Height = initialHeight - 1
	}
	if pi := catch("Commit", func() { c.App.Commit() }); pi != nil {
		return pi
	}
	c.Height = c.App.LastBlockHeight()
	return nil
}

func (c *Chain) lastCommit() abci.LastCommitInfo {
	var votes []abci.VoteInfo
	for _, v := range c.Vals {
		votes = append(votes, abci.VoteInfo{Validator: abci.Validator{Address: v.ConsAddr, Power: v.Power}, SignedLastBlock: true})
	}
	return abci.LastCommitInfo{Votes: votes}
}

// BeginBlock advances the simulated clock to t and runs the real BeginBlock.
func (c *Chain) BeginBlock(t time.Time) (resp abci.ResponseBeginBlock, pi *PanicInfo) {
	c.Now = t
	c.Header = tmproto.Header{ChainID: ChainID, Height: c.Height + 1, Time: t}
	if len(c.Vals) > 0 {
		c.Header.ProposerAddress = c.Vals[0].ConsAddr
	}
	pi = catch("BeginBlock", func() {
		resp = c.App.BeginBlock(abci.RequestBeginBlock{Header: c.Header, LastCommitInfo: c.lastCommit()})
	})
	c.InBlock = pi == nil
	if pi != nil {
		c.Halted = pi
	}
	return
}

func (c *Chain) DeliverTx(txBytes []byte) (resp abci.ResponseDeliverTx, pi *PanicInfo) {
	pi = catch("DeliverTx", func() { resp = c.App.DeliverTx(abci.RequestDeliverTx{Tx: txBytes}) })
	c.Txs++
	return
}

func (c *Chain) EndBlock() (resp abci.ResponseEndBlock, pi *PanicInfo) {
	pi = catch("EndBlock", func() { resp = c.App.EndBlock(abci.RequestEndBlock{Height: c.Header.Height}) })
	if pi != nil {
		c.Halted = pi
	}
	return
}

func (c *Chain) Commit() (hash []byte, pi *PanicInfo) {
	pi = catch("Commit", func() { hash = c.App.Commit().Data })
	if pi == nil {
		c.Height = c.Header.Height
		c.InBlock = false
		c.Blocks++
	} else {
		c.Halted = pi
	}
	return
}

// Ctx returns a context over the deliver state inside a block, or over the last committed state outside.
func (c *Chain) Ctx() sdk.Context {
	if c.InBlock {
		return c.App.BaseApp.NewContext(false, c.Header)
	}
	h := c.Header
	if h.ChainID == "" {
		h = tmproto.Header{ChainID: ChainID, Height: c.Height, Time: c.Now}
	}
	return c.App.BaseApp.NewContext(true, h)
}

// Direct runs a message through the app's message-service router on a cache-wrapped deliver context
// (the route x/gov, x/authz, x/group and ICA use): written on success, discarded on error or panic.
func (c *Chain) Direct(msg sdk.Msg) (res *sdk.Result, err error, pi *PanicInfo) {
	h := c.App.MsgServiceRouter().Handler(msg)
	if h == nil {
		return nil, fmt.Errorf("no handler for %s", sdk.MsgTypeURL(msg)), nil
	}
	ctx := c.Ctx()
	cctx, write := ctx.CacheContext()
	pi = catch("Direct:"+sdk.MsgTypeURL(msg), func() { res, err = h(cctx, msg) })
	if pi == nil && err == nil {
		write()
	}
	c.Txs++
	return
}

// DirectAtomic runs several messages through the message-service router on ONE cache-wrapped context and writes it
// only if every message succeeded - what x/gov does with the messages of a passed proposal and what DeliverTx does
// with the messages of a transaction. The first failure discards everything the earlier messages did.
func (c *Chain) DirectAtomic(msgs []sdk.Msg) (events []abci.Event, err error, pi *PanicInfo) {
	ctx := c.Ctx()
	cctx, write := ctx.CacheContext()
	pi = catch("DirectAtomic", func() {
		for i, msg := range msgs {
			h := c.App.MsgServiceRouter().Handler(msg)
			if h == nil {
				err = fmt.Errorf("no handler for %s", sdk.MsgTypeURL(msg))
				return
			}
			var res *sdk.Result
			res, err = h(cctx, msg)
			if err != nil {
				err = fmt.Errorf("message %d: %w", i, err)
				return
			}
			if res != nil {
				events = append(events, res.Events...)
			}
		}
	})
	if pi == nil && err == nil {
		write()
	} else {
		events = nil
	}
	c.Txs++
	return
}

// WithCache runs f on a cache-wrapped context; writes when f returns true and does not panic.
func (c *Chain) WithCache(where string, f func(ctx sdk.Context) bool) *PanicInfo {
	ctx := c.Ctx()
	cctx, write := ctx.CacheContext()
	ok := false
	pi := catch(where, func() { ok = f(cctx) })
	if pi == nil && ok {
		write()
	}
	return pi
}

// Query runs a real ABCI query against the last committed state.
func (c *Chain) Query(path string, data []byte) (resp abci.ResponseQuery, pi *PanicInfo) {
	pi = catch("Query:"+path, func() { resp = c.App.Query(abci.RequestQuery{Path: path, Data: data}) })
	return
}

// IsErrPanic says whether baseapp converted a panic into an error for this response.
func IsErrPanic(codespace string, code uint32, log string) bool {
	if codespace == "undefined" && code == 111222 {
		return true
	}
	return strings.Contains(log, "recovered:") && strings.Contains(log, "stack:")
}

// Site returns the first frame of the panic stack that lies in the repository under test, as
// "func@file:line" with the path made relative; used as the stable part of a violation signature.
func (p *PanicInfo) Site() string {
	lines := strings.Split(p.Stack, "\n")
	for i := 0; i+1 < len(lines); i++ {
		fn := strings.TrimSpace(lines[i])
		loc := strings.TrimSpace(lines[i+1])
		if !strings.Contains(fn, "chain4energy/c4e-chain/") {
			continue
		}
		if j := strings.LastIndex(fn, "c4e-chain/"); j >= 0 {
			fn = fn[j+len("c4e-chain/"):]
		}
		if k := strings.Index(fn, "("); k > 0 && strings.HasSuffix(fn, ")") {
			// strip argument list of the last call
			if k2 := strings.LastIndex(fn, "("); k2 > 0 {
				fn = fn[:k2]
			}
		}
		file := loc
		if j := strings.Index(file, " +0x"); j >= 0 {
			file = file[:j]
		}
		// make the path relative to the repository root wherever the tree is checked out
		for _, root := range []string{"/x/cfe", "/app/"} {
			if j := strings.LastIndex(file, root); j >= 0 {
				file = file[j+1:]
				break
			}
		}
		// drop the line number: signatures must survive unrelated edits of the file
		if j := strings.LastIndex(file, ":"); j >= 0 {
			file = file[:j]
		}
		return fn + "@" + file
	}
	return "outside-repo"
}

// DirectSig runs a cfesignature message through keeper.NewMsgServerImpl on a cache-wrapped deliver context.
// The module's Msg service is not registered in the shipped app (its transactions answer "unrecognized message
// route"), so this message server is the module's public write API.
func (c *Chain) DirectSig(msg sdk.Msg) (err error, pi *PanicInfo) {
	srv := sigkeeper.NewMsgServerImpl(c.App.CfesignatureKeeper)
	ctx := c.Ctx()
	cctx, write := ctx.CacheContext()
	pi = catch("DirectSig:"+sdk.MsgTypeURL(msg), func() {
		goCtx := sdk.WrapSDKContext(cctx)
		switch m := msg.(type) {
		case *sigtypes.MsgCreateAccount:
			_, err = srv.CreateAccount(goCtx, m)
		case *sigtypes.MsgStoreSignature:
			_, err = srv.StoreSignature(goCtx, m)
		case *sigtypes.MsgPublishReferencePayloadLink:
			_, err = srv.PublishReferencePayloadLink(goCtx, m)
		default:
			err = fmt.Errorf("not a cfesignature message: %T", msg)
		}
	})
	if pi == nil && err == nil {
		write()
	}
	c.Txs++
	return
}

// DirectSrv hands a minter or distributor parameter-update message to the module's own message server, the way an
// in-process caller (another module, a unit test, a future wiring) does: the message must pass ValidateBasic, which
// is checked on a decoded copy, so the handler sees the payload exactly as the caller built it (the message router
// and x/gov both run ValidateBasic on the very object they hand on, and cfeminter's ValidateBasic sorts its
// minters in place).
func (c *Chain) DirectSrv(msg sdk.Msg) (err error, pi *PanicInfo) {
	if js, e := MsgToJSON(msg); e == nil {
		if cp, e2 := MsgFromJSON(js); e2 == nil {
			var verr error
			if p := catch("DirectSrv:ValidateBasic", func() { verr = cp.ValidateBasic() }); p != nil {
				return nil, p
			}
			if verr != nil {
				c.Txs++
				return verr, nil
			}
		}
	}
	ctx := c.Ctx()
	cctx, write := ctx.CacheContext()
	pi = catch("DirectSrv:"+sdk.MsgTypeURL(msg), func() {
		goCtx := sdk.WrapSDKContext(cctx)
		switch m := msg.(type) {
		case *mintertypes.MsgUpdateMintersParams:
			_, err = minterkeeper.NewMsgServerImpl(c.App.CfeminterKeeper).UpdateMintersParams(goCtx, m)
		case *mintertypes.MsgUpdateParams:
			_, err = minterkeeper.NewMsgServerImpl(c.App.CfeminterKeeper).UpdateParams(goCtx, m)
		case *disttypes.MsgUpdateParams:
			_, err = distkeeper.NewMsgServerImpl(c.App.CfedistributorKeeper).UpdateParams(goCtx, m)
		case *disttypes.MsgUpdateSubDistributorParam:
			_, err = distkeeper.NewMsgServerImpl(c.App.CfedistributorKeeper).UpdateSubDistributorParam(goCtx, m)
		case *disttypes.MsgUpdateSubDistributorDestinationShareParam:
			_, err = distkeeper.NewMsgServerImpl(c.App.CfedistributorKeeper).UpdateSubDistributorDestinationShareParam(goCtx, m)
		case *disttypes.MsgUpdateSubDistributorBurnShareParam:
			_, err = distkeeper.NewMsgServerImpl(c.App.CfedistributorKeeper).UpdateSubDistributorBurnShareParam(goCtx, m)
		default:
			err = fmt.Errorf("no message server route for %T", msg)
		}
	})
	if pi == nil && err == nil {
		write()
	}
	c.Txs++
	return
}

// Catch runs f and converts a panic into a PanicInfo (simulated process deaths propagate).
func Catch(where string, f func()) *PanicInfo { return catch(where, f) }
