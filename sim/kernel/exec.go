package kernel

import (
	"crypto/sha256"
	"encoding/base64"
	"encoding/hex"
	"fmt"
	"sort"
	"strings"

	sdk "github.com/cosmos/cosmos-sdk/types"
	abci "github.com/tendermint/tendermint/abci/types"
)

// DecodeMsgs turns the recorded JSON into messages; an undecodable message is an infrastructure error.
func DecodeMsgs(tx *Tx) ([]sdk.Msg, error) {
	var msgs []sdk.Msg
	if len(tx.Bin) > 0 {
		for _, b64 := range tx.Bin {
			bz, err := base64.StdEncoding.DecodeString(b64)
			if err != nil {
				return nil, err
			}
			var m sdk.Msg
			if err := Enc().Marshaler.UnmarshalInterface(bz, &m); err != nil {
				return nil, err
			}
			msgs = append(msgs, m)
		}
		return msgs, nil
	}
	for _, raw := range tx.Msgs {
		m, err := MsgFromJSON(raw)
		if err != nil {
			return nil, err
		}
		msgs = append(msgs, m)
	}
	return msgs, nil
}

// ExecTx delivers one recorded transaction and tells the monitors.
func (r *Run) ExecTx(tx *Tx) *TxResult {
	c := r.Chain
	msgs, err := DecodeMsgs(tx)
	if err != nil {
		r.InfraErr = fmt.Errorf("cannot decode recorded msg: %w", err)
		return &TxResult{BuildErr: err.Error()}
	}
	// the monitors see the messages with every account address in its canonical spelling (an all-upper-case bech32
	// string names the same account): oracles reason about accounts, the chain gets the message as it was written
	seen := CanonMsgs(msgs)
	for _, m := range r.Monitors {
		m.BeforeTx(r, tx, seen)
	}
	res := &TxResult{}
	switch tx.Route {
	case "sig":
		r.Stats.Inc("tx.sig_msgserver")
		for _, msg := range msgs {
			err, pi := c.DirectSig(msg)
			r.currentBlockTxBytes = append(r.currentBlockTxBytes, deliveredTx{sig: msg})
			if pi != nil {
				res.Panic = pi
				res.Log = pi.Value
				break
			}
			if err != nil {
				res.Log = err.Error()
				res.Code = 1
				if cs, code, _ := errABCI(err); code != 0 {
					res.Codespace, res.Code = cs, code
				}
				break
			}
			res.OK = true
		}
		if res.Panic != nil || res.Code != 0 {
			res.OK = false
		}
	case "sim":
		// F-simulate: the transaction is only handed to the node's Simulate service (no signature needed, any signer
		// - also the governance authority); whatever its handlers do must leave no trace. Reported to the monitors as
		// a refused transaction.
		res.Simulated = true
		bz, err := c.BuildSimTx(msgs)
		if err != nil {
			res.BuildErr = err.Error()
			r.Stats.Inc("tx.unbuildable")
			break
		}
		sres, err, pi := c.SimulateTx(bz)
		r.Stats.Inc("fault.simulated_tx")
		res.Code = 1
		switch {
		case pi != nil:
			res.Panic = pi
			res.Log = "simulated: " + pi.Value
		case err != nil:
			res.Log = "simulated: " + err.Error()
			if IsErrPanic("", 0, res.Log) {
				res.Panic = &PanicInfo{Where: "Simulate(recovered by baseapp)", Value: firstLine(err.Error()), Stack: err.Error()}
			}
		default:
			_ = sres
			res.Log = "simulated: handlers succeeded (state discarded)"
			r.Stats.Inc("fault.simulated_tx_handlers_succeeded")
		}
	case "atomic":
		r.Stats.Inc("tx.atomic")
		evs, err, pi := c.DirectAtomic(msgs)
		r.currentBlockTxBytes = append(r.currentBlockTxBytes, deliveredTx{atomic: msgs})
		switch {
		case pi != nil:
			res.Panic = pi
			res.Log = pi.Value
		case err != nil:
			res.Log = err.Error()
			res.Code = 1
			if cs, code, _ := errABCI(err); code != 0 {
				res.Codespace, res.Code = cs, code
			}
		default:
			res.Events = evs
			res.OK = true
		}
		if !res.OK {
			r.Stats.Inc("fault.atomic_execution_rolled_back")
		}
	case "srv":
		r.Stats.Inc("tx.msgserver")
		for _, msg := range msgs {
			err, pi := c.DirectSrv(msg)
			r.currentBlockTxBytes = append(r.currentBlockTxBytes, deliveredTx{srv: msg})
			if pi != nil {
				res.Panic = pi
				res.Log = pi.Value
				break
			}
			if err != nil {
				res.Log = err.Error()
				res.Code = 1
				if cs, code, _ := errABCI(err); code != 0 {
					res.Codespace, res.Code = cs, code
				}
				break
			}
			res.OK = true
		}
		if res.Panic != nil || res.Code != 0 {
			res.OK = false
		}
	case "direct":
		r.Stats.Inc("tx.direct")
		for _, msg := range msgs {
			sres, err, pi := c.Direct(msg)
			r.currentBlockTxBytes = append(r.currentBlockTxBytes, deliveredTx{direct: msg})
			if pi != nil {
				res.Panic = pi
				res.Log = pi.Value
				break
			}
			if err != nil {
				res.Log = err.Error()
				res.Code = 1
				if cs, code, _ := errABCI(err); code != 0 {
					res.Codespace, res.Code = cs, code
				}
				break
			}
			if sres != nil {
				res.Events = append(res.Events, sres.Events...)
				res.Data = sres.Data
			}
			res.OK = true
		}
		if res.Panic != nil || res.Code != 0 {
			res.OK = false
		}
	default:
		r.Stats.Inc("tx.signed")
		fee := MustCoinsLenient(tx.Fee)
		gas := tx.Gas
		if gas == 0 {
			gas = 5_000_000
		}
		bz, err := c.BuildTx(tx.Signer, msgs, fee, gas, tx.SeqDelta)
		if err != nil {
			// e.g. GetSigners panicking on a malformed address: the client cannot even sign this; not delivered.
			res.BuildErr = err.Error()
			r.Stats.Inc("tx.unbuildable")
			break
		}
		n := 1
		if tx.Dup {
			n = 2
			r.Stats.Inc("fault.tx_duplicate")
		}
		for k := 0; k < n; k++ {
			resp, pi := c.DeliverTx(bz)
			r.currentBlockTxBytes = append(r.currentBlockTxBytes, deliveredTx{raw: bz})
			if k == 1 {
				if resp.Code == 0 {
					r.Violate("C11", "replay-protection", "duplicate-accepted", "identical tx bytes accepted twice in one block")
				}
				break
			}
			res.Code, res.Codespace, res.Log, res.GasUsed, res.Events, res.Data = resp.Code, resp.Codespace, resp.Log, resp.GasUsed, resp.Events, resp.Data
			res.OK = resp.Code == 0 && pi == nil
			if pi != nil {
				res.Panic = pi
			} else if IsErrPanic(resp.Codespace, resp.Code, resp.Log) {
				res.Panic = &PanicInfo{Where: "DeliverTx(recovered by baseapp)", Value: firstLine(resp.Log), Stack: resp.Log}
			}
		}
		if tx.SeqDelta != 0 {
			r.Stats.Inc("fault.tx_stale_sequence")
		}
	}
	if res.Simulated {
		// neither accepted nor rejected: it was never delivered
	} else if res.OK {
		r.Stats.Inc("tx.ok")
	} else {
		r.Stats.Inc("tx.rejected")
	}
	r.logf("  tx %s route=%s code=%d/%s gas=%d ev=%s", tx.Signer, tx.Route, res.Code, res.Codespace, res.GasUsed, DigestEvents(res.Events))
	for _, m := range r.Monitors {
		m.AfterTx(r, tx, seen, res)
	}
	return res
}

func firstLine(s string) string {
	if i := strings.IndexByte(s, '\n'); i >= 0 {
		s = s[:i]
	}
	if len(s) > 300 {
		s = s[:300]
	}
	return s
}

func errABCI(err error) (string, uint32, string) {
	defer func() { _ = recover() }()
	cs, code, log := sdkerrorsABCIInfo(err)
	return cs, code, log
}

func MustCoinsLenient(s string) sdk.Coins {
	if s == "" {
		return sdk.NewCoins()
	}
	c, err := sdk.ParseCoinsNormalized(s)
	if err != nil {
		return sdk.NewCoins()
	}
	return c
}

// DigestEvents is a short, order-sensitive digest of ABCI events (type, attribute keys and values).
func DigestEvents(evs []abci.Event) string {
	h := sha256.New()
	for _, e := range evs {
		h.Write([]byte(e.Type))
		h.Write([]byte{0})
		for _, a := range e.Attributes {
			h.Write(a.Key)
			h.Write([]byte{1})
			h.Write(a.Value)
			h.Write([]byte{2})
		}
	}
	return hex.EncodeToString(h.Sum(nil))[:16]
}

// EventAttrs collects events of a type as key->value maps (typed events JSON-quote their values).
func EventAttrs(evs []abci.Event, typ string) []map[string]string {
	var out []map[string]string
	for _, e := range evs {
		if e.Type != typ {
			continue
		}
		m := map[string]string{}
		for _, a := range e.Attributes {
			m[string(a.Key)] = string(a.Value)
		}
		out = append(out, m)
	}
	return out
}

func SortedCopy(xs []string) []string {
	o := append([]string(nil), xs...)
	sort.Strings(o)
	return o
}
