package main

import (
	"os"

	"verifsim/checks"
)

func main() {
	os.Exit(checks.Main(os.Args[1:]))
}
