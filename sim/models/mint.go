// Package models holds the small executable reference models used as oracles. They are written from the
// READMEs and the property statements in exact arithmetic (math/big) and import no logic from the code under test.
package models

import (
	"math/big"
	"time"
)

type MintKind int

const (
	MintNone MintKind = iota
	MintLinear
	MintExp
)

// MintPeriod is one emission period. End == nil only for the last period.
type MintPeriod struct {
	Kind   MintKind
	Amount *big.Int   // linear: total over the period; exponential: amount of the first step
	End    *time.Time // exclusive hand-over instant
	StepNs int64      // exponential: step length
	Mult   *big.Rat   // exponential: per-step multiplier in [0,1]
}

type MintModel struct {
	Start   time.Time
	Periods []MintPeriod
}

var ratOne = big.NewRat(1, 1)

// periodEmission returns the emission of period p, which starts at s, up to instant t (t may exceed the end),
// and the number of completed exponential steps used.
func periodEmission(p MintPeriod, s time.Time, t time.Time) (*big.Rat, int64) {
	if !t.After(s) {
		return new(big.Rat), 0
	}
	capT := t
	ended := false
	if p.End != nil && !t.Before(*p.End) {
		capT = *p.End
		ended = true
	}
	switch p.Kind {
	case MintNone:
		return new(big.Rat), 0
	case MintLinear:
		if ended {
			return new(big.Rat).SetInt(p.Amount), 0
		}
		// documented definition: linear in millisecond-truncated time
		num := capT.UnixMilli() - s.UnixMilli()
		den := p.End.UnixMilli() - s.UnixMilli()
		if den <= 0 {
			return new(big.Rat), 0
		}
		r := new(big.Rat).SetFrac(big.NewInt(num), big.NewInt(den))
		return r.Mul(r, new(big.Rat).SetInt(p.Amount)), 0
	case MintExp:
		// Evaluated as a rigorous enclosure in 60-digit fixed point (directed rounding), returned as its midpoint;
		// the enclosure width (< steps*1e-59) is far below the 1e-18 comparison window.
		passed := capT.Sub(s).Nanoseconds()
		n := passed / p.StepNs
		scale := new(big.Int).Exp(big.NewInt(10), big.NewInt(60), nil)
		cur := new(big.Int).Mul(p.Amount, scale)
		sum := new(big.Int)
		mn, md := p.Mult.Num(), p.Mult.Denom()
		for j := int64(0); j < n; j++ {
			sum.Add(sum, cur)
			cur.Mul(cur, mn)
			cur.Quo(cur, md)
			if cur.Sign() == 0 {
				break
			}
		}
		rest := passed - n*p.StepNs
		if rest > 0 && cur.Sign() > 0 {
			part := new(big.Int).Mul(cur, big.NewInt(rest))
			part.Quo(part, big.NewInt(p.StepNs))
			sum.Add(sum, part)
		}
		return new(big.Rat).SetFrac(sum, scale), n
	}
	return new(big.Rat), 0
}

// Cumulative is the schedule's total emission from the start up to t, and the number of exponential steps
// evaluated (which bounds the fixed-point error of an 18-digit implementation).
func (m *MintModel) Cumulative(t time.Time) (*big.Rat, int64) {
	total := new(big.Rat)
	var steps int64
	if t.Before(m.Start) {
		return total, 0
	}
	s := m.Start
	for _, p := range m.Periods {
		e, n := periodEmission(p, s, t)
		total.Add(total, e)
		steps += n
		if p.End == nil || t.Before(*p.End) {
			break
		}
		s = *p.End
	}
	return total, steps
}

// PeriodIndexAt returns the index of the period that is current at t (after hand-over at t == End).
func (m *MintModel) PeriodIndexAt(t time.Time) int {
	for i, p := range m.Periods {
		if p.End == nil || t.Before(*p.End) {
			return i
		}
	}
	return len(m.Periods) - 1
}

func (m *MintModel) PeriodStart(i int) time.Time {
	if i == 0 {
		return m.Start
	}
	return *m.Periods[i-1].End
}

// Window returns [lo, hi]: the integers an 18-digit fixed-point evaluation of floor(E) may produce.
// eps = 10^-18 * (steps^2 + periods + 10): each rounded multiplication is off by at most half an ulp and
// errors do not grow because multipliers are at most 1.
func Window(e *big.Rat, steps int64, periods int) (lo, hi *big.Int) {
	k := new(big.Int).SetInt64(steps)
	k.Mul(k, k)
	k.Add(k, big.NewInt(int64(periods)+10))
	eps := new(big.Rat).SetFrac(k, new(big.Int).Exp(big.NewInt(10), big.NewInt(18), nil))
	l := new(big.Rat).Sub(e, eps)
	h := new(big.Rat).Add(e, eps)
	lo = FloorRat(l)
	if lo.Sign() < 0 {
		lo.SetInt64(0)
	}
	hi = FloorRat(h)
	return
}

func FloorRat(r *big.Rat) *big.Int {
	q := new(big.Int)
	m := new(big.Int)
	q.DivMod(r.Num(), r.Denom(), m)
	return q
}

func FracRat(r *big.Rat) *big.Rat {
	f := FloorRat(r)
	return new(big.Rat).Sub(r, new(big.Rat).SetInt(f))
}

// Boundaries lists the interesting instants of the schedule up to a horizon: start, period ends, and up to
// maxSteps step boundaries of each exponential period.
func (m *MintModel) Boundaries(horizon time.Time, maxSteps int) []time.Time {
	out := []time.Time{m.Start}
	s := m.Start
	for _, p := range m.Periods {
		end := horizon
		if p.End != nil {
			out = append(out, *p.End)
			if p.End.Before(end) {
				end = *p.End
			}
		}
		if p.Kind == MintExp && p.StepNs > 0 {
			t := s
			for k := 0; k < maxSteps; k++ {
				t = t.Add(time.Duration(p.StepNs))
				if !t.Before(end) {
					break
				}
				out = append(out, t)
			}
		}
		if p.End == nil {
			break
		}
		s = *p.End
	}
	return out
}
