package models

import (
	"fmt"
	"math/big"
	"sort"
)

// M-dist: the documented distributor flow in exact rationals.
//
// Accounts are keyed by (type,id); sources of a sub-distributor are a set (order-free). External inflows are
// observed (balances of source accounts before the block, the amount minted into the main account), never modelled.

type AccType string

const (
	AccMain     AccType = "MAIN"
	AccInternal AccType = "INTERNAL_ACCOUNT"
	AccModule   AccType = "MODULE_ACCOUNT"
	AccBase     AccType = "BASE_ACCOUNT"
)

type Acc struct {
	Type AccType
	ID   string
	Addr string // bech32 of the on-chain account for module/base accounts ("" for main/internal)
}

func (a Acc) Key() string {
	if a.Type == AccMain {
		return "MAIN"
	}
	return string(a.Type) + "|" + a.ID
}

type DShare struct {
	Name  string
	Dest  Acc
	Share *big.Rat
}

type SubDist struct {
	Name    string
	Sources []Acc
	Primary Acc
	Burn    *big.Rat
	Shares  []DShare
}

// Amt is a per-denomination rational amount.
type Amt map[string]*big.Rat

func (a Amt) Add(b Amt) {
	for d, v := range b {
		if a[d] == nil {
			a[d] = new(big.Rat)
		}
		a[d].Add(a[d], v)
	}
}
func (a Amt) Sub(b Amt) {
	for d, v := range b {
		if a[d] == nil {
			a[d] = new(big.Rat)
		}
		a[d].Sub(a[d], v)
	}
}
func (a Amt) Scale(f *big.Rat) Amt {
	o := Amt{}
	for d, v := range a {
		o[d] = new(big.Rat).Mul(v, f)
	}
	return o
}
func (a Amt) Clone() Amt {
	o := Amt{}
	for d, v := range a {
		o[d] = new(big.Rat).Set(v)
	}
	return o
}
func (a Amt) IsZero() bool {
	for _, v := range a {
		if v.Sign() != 0 {
			return false
		}
	}
	return true
}
func (a Amt) Denoms() []string {
	ds := make([]string, 0, len(a))
	for d := range a {
		ds = append(ds, d)
	}
	sort.Strings(ds)
	return ds
}
func (a Amt) String() string {
	s := ""
	for _, d := range a.Denoms() {
		if a[d].Sign() != 0 {
			s += a[d].FloatString(6) + d + " "
		}
	}
	if s == "" {
		return "0"
	}
	return s
}

func AmtFromInts(m map[string]*big.Int) Amt {
	o := Amt{}
	for d, v := range m {
		o[d] = new(big.Rat).SetInt(v)
	}
	return o
}

// DistModel is the running state of the reference model.
type DistModel struct {
	Subs []SubDist
	// Owed: what each destination (or burn, key "BURN") is still owed = entitled - received - requeued.
	Owed map[string]Amt
	// Cumulative per final destination key.
	Entitled map[string]Amt
	Received map[string]Amt
	Requeued map[string]Amt
	// Per block results for event checks.
	LastInflow map[string]Amt // sub-distributor name -> inflow of the last block
	LastToMain map[string]Amt // sub-distributor name -> part of that inflow routed to the main account (no event)
	Accs       map[string]Acc // every account key seen in the configuration
}

const BurnKey = "BURN"

func NewDistModel(subs []SubDist) *DistModel {
	m := &DistModel{Owed: map[string]Amt{}, Entitled: map[string]Amt{}, Received: map[string]Amt{}, Requeued: map[string]Amt{}}
	m.SetConfig(subs)
	return m
}

// SetConfig replaces the configuration (a governance update); what is owed stays owed.
func (m *DistModel) SetConfig(subs []SubDist) {
	m.Subs = subs
	if m.Accs == nil {
		m.Accs = map[string]Acc{}
	}
	for _, s := range subs {
		for _, a := range s.Sources {
			m.Accs[a.Key()] = a
		}
		m.Accs[s.Primary.Key()] = s.Primary
		for _, sh := range s.Shares {
			m.Accs[sh.Dest.Key()] = sh.Dest
		}
	}
}

func (m *DistModel) amt(mp map[string]Amt, k string) Amt {
	if mp[k] == nil {
		mp[k] = Amt{}
	}
	return mp[k]
}

func (m *DistModel) TotalOwed() Amt {
	t := Amt{}
	for _, k := range sortedKeys(m.Owed) {
		t.Add(m.Owed[k])
	}
	return t
}

func sortedKeys(mp map[string]Amt) []string {
	ks := make([]string, 0, len(mp))
	for k := range mp {
		ks = append(ks, k)
	}
	sort.Strings(ks)
	return ks
}

// BeginBlock runs the documented flow for one block.
//
//	mainBalance: coins in the distributor's main account when distribution starts (after this block's mint)
//	balances:    spendable balance, before the block, of every module/base account by bech32 address
//	sweepFails:  source account keys whose sweep fails in this block (fault profiles; nil otherwise)
func (m *DistModel) BeginBlock(mainBalance Amt, balances map[string]Amt, sweepFails map[string]bool) {
	m.LastInflow = map[string]Amt{}
	m.LastToMain = map[string]Amt{}
	// unallocated pool = what the main account holds beyond what is owed to somebody
	pool := mainBalance.Clone()
	pool.Sub(m.TotalOwed())
	bal := map[string]Amt{}
	for a, v := range balances {
		bal[a] = v.Clone()
	}
	for _, sd := range m.Subs {
		inflow := Amt{}
		seen := map[string]bool{}
		for _, src := range sd.Sources {
			k := src.Key()
			if seen[k] {
				continue
			}
			seen[k] = true
			switch src.Type {
			case AccMain:
				inflow.Add(pool)
				pool = Amt{}
			case AccInternal:
				inflow.Add(m.amt(m.Owed, k))
				m.amt(m.Requeued, k).Add(m.amt(m.Owed, k))
				m.Owed[k] = Amt{}
			case AccModule, AccBase:
				if !sweepFails[k] {
					if b := bal[src.Addr]; b != nil {
						inflow.Add(b)
						bal[src.Addr] = Amt{}
					}
				}
				// what the distributor still owes this account is re-queued, not paid out
				inflow.Add(m.amt(m.Owed, k))
				m.amt(m.Requeued, k).Add(m.amt(m.Owed, k))
				m.Owed[k] = Amt{}
			}
		}
		if inflow.IsZero() {
			continue
		}
		m.LastInflow[sd.Name] = inflow.Clone()
		toMain := Amt{}
		rest := inflow.Clone()
		give := func(dst Acc, a Amt) {
			if dst.Type == AccMain {
				pool.Add(a)
				toMain.Add(a)
				return
			}
			k := dst.Key()
			m.amt(m.Owed, k).Add(a)
			m.amt(m.Entitled, k).Add(a)
		}
		for _, sh := range sd.Shares {
			a := inflow.Scale(sh.Share)
			rest.Sub(a)
			give(sh.Dest, a)
		}
		if sd.Burn != nil && sd.Burn.Sign() > 0 {
			a := inflow.Scale(sd.Burn)
			rest.Sub(a)
			m.amt(m.Owed, BurnKey).Add(a)
			m.amt(m.Entitled, BurnKey).Add(a)
		}
		give(sd.Primary, rest)
		m.LastToMain[sd.Name] = toMain
	}
}

// Paid records an observed payout (or burn, key BURN) of whole coins.
func (m *DistModel) Paid(key string, coins map[string]*big.Int) {
	a := AmtFromInts(coins)
	m.amt(m.Owed, key).Sub(a)
	m.amt(m.Received, key).Add(a)
}

// CheckOwed verifies 0 <= owed (never overpaid) and, when requireSettled, owed < 1 for every final destination.
func (m *DistModel) CheckOwed(requireSettled bool, tol *big.Rat) error {
	upper := new(big.Rat).Add(big.NewRat(1, 1), tol)
	negTol := new(big.Rat).Neg(tol)
	for _, k := range sortedKeys(m.Owed) {
		for _, d := range m.Owed[k].Denoms() {
			v := m.Owed[k][d]
			if v.Cmp(negTol) < 0 {
				return fmt.Errorf("destination %s received %s%s more than its share (entitled %s, received %s, requeued %s)", k, new(big.Rat).Neg(v).FloatString(6), d,
					m.amt(m.Entitled, k).String(), m.amt(m.Received, k).String(), m.amt(m.Requeued, k).String())
			}
			if requireSettled && k != BurnKey && len(k) > 0 {
				acc, ok := m.Accs[k]
				if ok && (acc.Type == AccInternal) {
					continue
				}
				if v.Cmp(upper) >= 0 {
					return fmt.Errorf("destination %s is short by %s%s (entitled %s, received %s, requeued %s)", k, v.FloatString(6), d,
						m.amt(m.Entitled, k).String(), m.amt(m.Received, k).String(), m.amt(m.Requeued, k).String())
				}
			}
			if requireSettled && k == BurnKey && v.Cmp(upper) >= 0 {
				return fmt.Errorf("burn is short by %s%s (entitled %s, burned %s)", v.FloatString(6), d, m.amt(m.Entitled, k).String(), m.amt(m.Received, k).String())
			}
		}
	}
	return nil
}
