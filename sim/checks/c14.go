package checks

import (
	"fmt"

	disttypes "github.com/chain4energy/c4e-chain/x/cfedistributor/types"
	sdk "github.com/cosmos/cosmos-sdk/types"
	banktypes "github.com/cosmos/cosmos-sdk/x/bank/types"

	"verifsim/kernel"
)

// C14 — failed transfers in the distributor lose nothing and are made up later.
//
// Twin A suffers injected per-call failures of the distributor's bank operations (and natural ones: blocked
// destinations), then runs a fault-free suffix; twin B executes the same blocks and transactions without injected
// faults. Oracles: on A after every block the C03 identity and supply == sum of balances; at the end every
// account's balance and the total supply agree between A and B up to one base unit per denomination.

func init() {
	Register(&Prop{
		ID:    "C14",
		Level: "fault_enumeration",
		Rule: "seeded part: one run = one valid configuration, twin A with injected per-call bank failures (single calls, bursts, persistent per destination, failing burns) in the first blocks " +
			"followed by a fault-free suffix of len(sub-distributors)+3 blocks, twin B fault-free; enumeration part (thorough): for a set of base scenarios, every single bank-call position of the first blocks is failed once. " +
			"non-trivial = at least one injected failure actually fired on a call that moved coins in twin B; distinct = hash of configuration shape, kinds of calls failed and outcome",
		Quick:      Tier{Runs: 1000, BudgetSec: 50},
		Thorough:   Tier{Runs: 20000, BudgetSec: 700},
		RunSeed:    c14RunSeed,
		Replay:     c14Replay,
		Enumerate:  c14Enumerate,
		Real:       distReal,
		Stub:       append([]string{"bank keeper seen by the distributor is wrapped (hook, build tag verif): selected calls return an error before taking effect"}, distStub...),
		Assumes:    []string{"injected failures are fail-before-effect; the real bank's partial-effect failure is exercised separately by vesting-locked sources (C01 faulty profile)", "traffic is signed only by clients that are neither sources nor destinations, so both twins see identical transactions"},
		FaultKinds: []string{"F-bank-inj single call", "F-bank-inj persistent destination", "F-bank-inj burn", "F-bank-nat blocked destination"},
	})
}

func fixedSendGen(senders []string, recipients []string) TxGen {
	return func(r *kernel.Run, rng *kernel.Rng) *kernel.Tx {
		from := senders[rng.Intn(len(senders))]
		to := recipients[rng.Intn(len(recipients))]
		msg := &banktypes.MsgSend{FromAddress: kernel.ActorBech(from), ToAddress: to, Amount: sdk.NewCoins(sdk.NewCoin(BondDenom, sdk.NewInt(int64(rng.Range(1, 40)))))}
		js, err := kernel.MsgToJSON(msg)
		if err != nil {
			return nil
		}
		return &kernel.Tx{Signer: from, Msgs: []jsonRaw{js}, Fee: sdk.NewCoin(BondDenom, sdk.NewInt(int64(rng.Range(0, 9)))).String()}
	}
}

func c14Destinations(p disttypes.Params) []string {
	seen := map[string]bool{}
	var out []string
	add := func(a disttypes.Account) {
		if a.Type == disttypes.ModuleAccount || a.Type == disttypes.BaseAccount {
			id := a.Id
			if a.Type == disttypes.BaseAccount {
				id = canonBaseID(id)
			}
			if !seen[id] {
				seen[id] = true
				out = append(out, id)
			}
		}
	}
	for _, sd := range p.SubDistributors {
		add(sd.Destinations.PrimaryShare)
		for _, sh := range sd.Destinations.Shares {
			add(sh.Destination)
		}
	}
	return out
}

func c14World(seed uint64) (*kernel.Trace, *genSource, error) {
	r := kernel.NewRng(seed)
	opts := distProfileOpts{Prop: "C14", Faulty: true, Blocks: [2]int{4, 14}, MaxAmtExp: 24}
	spec, cfg, err := buildDistWorld(r.Fork(10), opts)
	if err != nil {
		return nil, nil, err
	}
	// clients 0 and 1 are never sources or destinations; make sure they can always pay
	spec.Balances = append(spec.Balances, kernel.BalSpec{Actor: kernel.ClientName(0), Coins: "1000000" + BondDenom}, kernel.BalSpec{Actor: kernel.ClientName(1), Coins: "1000000" + BondDenom})
	var gs disttypes.GenesisState
	if err := kernel.Enc().Marshaler.UnmarshalJSON(spec.Distributor, &gs); err != nil {
		return nil, nil, err
	}
	dests := c14Destinations(gs.Params)
	depth, _ := distFlowDepth(gs.Params)
	recips := append([]string{}, cfg.BaseAddrs...)
	rr := r.Fork(11)
	faultyBlocks := rr.Range(opts.Blocks[0], opts.Blocks[1])
	suffix := depth + 3
	src := &genSource{rng: rr, nBlocks: faultyBlocks + suffix, MaxTxs: 3, PTx: 0.6,
		Cadence: func(_ *kernel.Run, g *kernel.Rng) int64 { return int64(5e9) + g.I64n(2e9) },
		TxGens:  []TxGen{fixedSendGen([]string{kernel.ClientName(0), kernel.ClientName(1)}, recips)}}
	active := map[string]bool{}
	burnOff := false
	src.BlockHook = func(_ *kernel.Run, g *kernel.Rng, b *kernel.Block, idx int) {
		if idx >= faultyBlocks {
			if idx == faultyBlocks {
				for _, d := range kernel.SortedKeys(active) {
					b.FailDestOff = append(b.FailDestOff, d)
				}
				f := false
				b.FailBurn = &f
			}
			return
		}
		if g.P(0.55) {
			n := g.Range(1, 3)
			for i := 0; i < n; i++ {
				b.BankFail = append(b.BankFail, g.Intn(14))
			}
		}
		if len(dests) > 0 && g.P(0.2) {
			d := dests[g.Intn(len(dests))]
			if active[d] {
				delete(active, d)
				b.FailDestOff = append(b.FailDestOff, d)
			} else {
				active[d] = true
				b.FailDestOn = append(b.FailDestOn, d)
			}
		}
		if g.P(0.12) {
			burnOff = !burnOff
			v := burnOff
			b.FailBurn = &v
		}
	}
	tr := &kernel.Trace{Profile: "C14", Seed: seed, Spec: *spec}
	return tr, src, nil
}

func stripFaults(blocks []kernel.Block) []kernel.Block {
	out := make([]kernel.Block, len(blocks))
	for i, b := range blocks {
		out[i] = kernel.Block{DtNs: b.DtNs, Txs: b.Txs}
	}
	return out
}

func c14RunSeed(seed uint64, tier string) *Outcome {
	tr, src, err := c14World(seed)
	if err != nil {
		return &Outcome{InfraErr: err}
	}
	return c14Exec(tr, src)
}

func c14Replay(tr *kernel.Trace) *Outcome { return c14Exec(tr, nil) }

func c14Exec(tr *kernel.Trace, src kernel.Source) *Outcome {
	dm := &distMonitor{Predictive: false, CheckC03: true}
	sm := &supplyMonitor{Prop: "C14"}
	runA, o := execTrace(tr, src, []kernel.Monitor{dm, sm, haltMonitor{}}, true)
	o.Evals = dm.evals + sm.evals
	if o.InfraErr != nil || len(o.Violations) > 0 {
		c14Finish(o, dm, runA)
		return o
	}
	// the comparison needs the fault-free suffix (a shrunk or hand-edited trace may have lost it): no suffix, no verdict
	var gs disttypes.GenesisState
	if err := kernel.Enc().Marshaler.UnmarshalJSON(tr.Spec.Distributor, &gs); err != nil {
		o.InfraErr = err
		return o
	}
	depth, cyclic := distFlowDepth(gs.Params)
	if cyclic {
		// coins circulate forever (a destination feeds one of its own sources): a delay shifts the phase of the
		// circulation for good, so "what it would have received" at a given instant is not defined; the per-block
		// identities above are still checked
		o.Stats.Inc("probe.cyclic_configuration_no_twin_verdict")
		c14Finish(o, dm, runA)
		return o
	}
	need := depth + 3
	clean := 0
	for i := len(tr.Blocks) - 1; i >= 0; i-- {
		b := tr.Blocks[i]
		if len(b.BankFail) > 0 || len(b.FailDestOn) > 0 || (b.FailBurn != nil && *b.FailBurn) {
			break
		}
		clean++
	}
	stillFailing := runA.Chain.Bank != nil && (len(runA.Chain.Bank.FailDest) > 0 || runA.Chain.Bank.FailBurn)
	if clean < need || stillFailing {
		o.Stats.Inc("probe.no_fault_free_suffix")
		c14Finish(o, dm, runA)
		return o
	}
	// twin B: same blocks and transactions, no injected faults
	trB := &kernel.Trace{Spec: tr.Spec, Blocks: stripFaults(tr.Blocks)}
	runB, oB := execTrace(trB, nil, []kernel.Monitor{haltMonitor{}}, true)
	if oB.InfraErr != nil {
		o.InfraErr = oB.InfraErr
		return o
	}
	if len(oB.Violations) > 0 {
		o.Violations = append(o.Violations, oB.Violations...)
		c14Finish(o, dm, runA)
		return o
	}
	// the transactions must have behaved identically, otherwise the comparison is meaningless (harness problem)
	if runA.Stats.Counters["tx.ok"] != runB.Stats.Counters["tx.ok"] {
		o.InfraErr = fmt.Errorf("twins saw different transaction outcomes (%d vs %d ok)", runA.Stats.Counters["tx.ok"], runB.Stats.Counters["tx.ok"])
		return o
	}
	// a module/base account swept by two sub-distributors: if the first sweep fails the second one takes the coins
	// and routes them by its own shares (known finding, kept apart by its own signature)
	sig := "twin-balance-differs"
	srcCount := map[string]int{}
	for _, sd := range gs.Params.SubDistributors {
		for _, s := range sd.Sources {
			if s.Type == disttypes.ModuleAccount || s.Type == disttypes.BaseAccount {
				srcCount[s.Type+"-"+canonBaseID(s.Id)]++
			}
		}
	}
	for _, n := range srcCount {
		if n > 1 {
			sig = "twin-balance-differs:source-shared-by-sub-distributors"
			o.Stats.Inc("probe.source_shared_by_sub_distributors")
			break
		}
	}
	balA, balB := runA.Chain.AllBalances(), runB.Chain.AllBalances()
	mainAddr := kernel.DistMainAddr().String()
	nStates := int64(len(runA.Chain.DistStates()) + 1)
	for addr, dd := range balA.Diff(balB) {
		for denom, delta := range dd {
			tol := int64(1)
			if addr == mainAddr {
				tol = nStates
			}
			o.Evals++
			if delta.Abs().GT(sdk.NewInt(tol)) {
				o.Violations = append(o.Violations, &kernel.Violation{Property: "C14", Check: "made-up-later", Signature: sig,
					Message: fmt.Sprintf("after the fault-free suffix %s holds %s%s without faults but differs by %s after the injected failures [config %s]", addr, balB[addr].AmountOf(denom), denom, delta, dm.shape),
					Block:   len(tr.Blocks) - 1, TxIndex: -1})
			}
		}
	}
	supA, supB := runA.Chain.Supply(), runB.Chain.Supply()
	for _, c := range supA {
		if c.Amount.Sub(supB.AmountOf(c.Denom)).Abs().GT(sdk.NewInt(1)) {
			supSig := "twin-supply-differs"
			if sig != "twin-balance-differs" {
				supSig = sig // same known cause: the burn share of the sub-distributor that swept instead
			}
			o.Violations = append(o.Violations, &kernel.Violation{Property: "C14", Check: "made-up-later", Signature: supSig,
				Message: fmt.Sprintf("total supply of %s is %s after failures, %s without", c.Denom, c.Amount, supB.AmountOf(c.Denom)), Block: len(tr.Blocks) - 1, TxIndex: -1})
		}
	}
	// did an injected failure hit a call that mattered?
	if runA.Chain.Bank != nil {
		for k, v := range runA.Chain.Bank.Fired {
			o.Stats.Add("fault.bank_inj_"+k, int64(v))
		}
	}
	c14Finish(o, dm, runA)
	return o
}

func c14Finish(o *Outcome, dm *distMonitor, runA *kernel.Run) {
	fired := int64(0)
	for k, v := range o.Stats.Counters {
		if len(k) > 15 && k[:15] == "fault.bank_inj_" {
			fired += v
		}
	}
	o.Nontrivial = fired > 0
	o.Fingerprint = fingerprint(dm.shape, statsClasses(&o.Stats, "fault.", "probe."), len(o.Violations) > 0)
	if o.Trace != nil {
		nf := 0
		for _, b := range o.Trace.Blocks {
			nf += len(b.BankFail) + len(b.FailDestOn)
		}
		o.Sample = map[string]interface{}{"seed": o.Trace.Seed, "config_shape": dm.shape, "blocks": len(o.Trace.Blocks), "fault_steps": nf, "failures_fired": fired}
	}
}

// c14Enumerate: for a handful of base scenarios, fail every single bank-call position of each of the first
// blocks exactly once (fault enumeration on short histories).
func c14Enumerate(tier string, emit func(*Outcome)) {
	bases := 2
	maxBlocks := 2
	if tier == "thorough" {
		bases = 12
		maxBlocks = 4
	}
	for i := 0; i < bases; i++ {
		seed := RunSeedFor(batchSeed()+4242, "C14", i)
		tr, src, err := c14World(seed)
		if err != nil {
			emit(&Outcome{InfraErr: err})
			return
		}
		// generate the base history once, then strip its faults
		base := c14Exec(tr, src)
		if base.InfraErr != nil {
			emit(base)
			return
		}
		blocks := stripFaults(tr.Blocks)
		// count calls per block on a fault-free run
		probe := &kernel.Trace{Spec: tr.Spec, Blocks: blocks}
		calls := []int{}
		cm := &callCounter{}
		execTrace(probe, nil, []kernel.Monitor{cm}, true)
		calls = cm.perBlock
		for b := 0; b < len(blocks) && b < maxBlocks; b++ {
			n := 0
			if b < len(calls) {
				n = calls[b]
			}
			for ord := 0; ord < n; ord++ {
				t2 := &kernel.Trace{Profile: "C14", Seed: seed, Spec: tr.Spec, Blocks: stripFaults(blocks)}
				t2.Blocks[b].BankFail = []int{ord}
				o := c14Exec(t2, nil)
				o.Stats.Inc("probe.enumerated_single_call_failure")
				emit(o)
			}
		}
	}
}

type callCounter struct {
	kernel.NopMonitor
	perBlock []int
}

func (c *callCounter) AfterCommit(r *kernel.Run) {
	n := 0
	if r.Chain.Bank != nil {
		n = len(r.Chain.Bank.Calls)
	}
	c.perBlock = append(c.perBlock, n)
}
