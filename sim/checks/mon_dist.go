package checks

import (
	"encoding/json"
	"fmt"
	"math/big"
	"strings"

	disttypes "github.com/chain4energy/c4e-chain/x/cfedistributor/types"
	sdk "github.com/cosmos/cosmos-sdk/types"
	abci "github.com/tendermint/tendermint/abci/types"

	"verifsim/kernel"
	"verifsim/models"
)

// distMonitor runs M-dist next to the real distributor and evaluates C03 (books), C04 (shares),
// and the distribution half of C18 (events) after every BeginBlock.
type distMonitor struct {
	kernel.NopMonitor
	Predictive   bool // fault-free profile: every destination must be settled (< 1 unit owed) after every block
	CheckC03     bool
	CheckC04     bool
	CheckC18     bool
	model        *models.DistModel
	pre          kernel.Balances
	preSpendable map[string]sdk.Coins
	preLocked    map[string]sdk.Coins
	mainAddr     string
	evals        int64
	faultsSeen   bool
	// Receipts per destination key (cumulative, whole coins), for twin comparisons (C14).
	shape string
}

var distTol = big.NewRat(1, 1_000_000)

func (m *distMonitor) Init(r *kernel.Run) {
	p := r.Chain.DistParams()
	m.model = models.NewDistModel(DistModelSubs(p))
	m.mainAddr = kernel.DistMainAddr().String()
	m.shape = distShape(p)
	// states present at genesis are owed amounts
	for _, st := range r.Chain.DistStates() {
		k := stateKey(st)
		m.model.Owed[k] = decCoinsToAmt(st.Remains)
	}
}

func stateKey(st disttypes.State) string {
	if st.Burn {
		return models.BurnKey
	}
	if st.Account == nil {
		return "NIL"
	}
	return accToModel(*st.Account).Key()
}

func decCoinsToAmt(dc sdk.DecCoins) models.Amt {
	a := models.Amt{}
	for _, c := range dc {
		a[c.Denom] = new(big.Rat).SetFrac(c.Amount.BigInt(), bigE18)
	}
	return a
}

func coinsToAmt(cs sdk.Coins) models.Amt {
	a := models.Amt{}
	for _, c := range cs {
		a[c.Denom] = new(big.Rat).SetInt(c.Amount.BigInt())
	}
	return a
}

func coinsToInts(cs sdk.Coins) map[string]*big.Int {
	a := map[string]*big.Int{}
	for _, c := range cs {
		a[c.Denom] = c.Amount.BigInt()
	}
	return a
}

func (m *distMonitor) BeforeBlock(r *kernel.Run, b *kernel.Block) {
	m.pre = r.Chain.AllBalances()
	m.preSpendable = map[string]sdk.Coins{}
	// a governance update may have replaced the configuration
	p := r.Chain.DistParams()
	m.model.SetConfig(DistModelSubs(p))
	if len(b.BankFail) > 0 || (r.Chain.Bank != nil && (len(r.Chain.Bank.FailDest) > 0 || r.Chain.Bank.FailBurn)) || len(b.FailDestOn) > 0 {
		m.faultsSeen = true
	}
}

type transferEv struct {
	from, to string
	coins    sdk.Coins
}

func parseTransfers(evs []abci.Event) (transfers []transferEv, burns []transferEv, mints []transferEv) {
	for _, e := range evs {
		at := map[string]string{}
		for _, a := range e.Attributes {
			at[string(a.Key)] = string(a.Value)
		}
		switch e.Type {
		case "transfer":
			c, err := sdk.ParseCoinsNormalized(at["amount"])
			if err == nil {
				transfers = append(transfers, transferEv{at["sender"], at["recipient"], c})
			}
		case "burn":
			c, err := sdk.ParseCoinsNormalized(at["amount"])
			if err == nil {
				burns = append(burns, transferEv{at["burner"], "", c})
			}
		case "coinbase":
			c, err := sdk.ParseCoinsNormalized(at["amount"])
			if err == nil {
				mints = append(mints, transferEv{at["minter"], "", c})
			}
		}
	}
	return
}

func (m *distMonitor) AfterBegin(r *kernel.Run, resp abci.ResponseBeginBlock) {
	c := r.Chain
	if c.Halted != nil {
		reportHalt(r)
		return
	}
	transfers, burns, mints := parseTransfers(resp.Events)
	// coins in the main account when distribution starts = balance before the block + this block's mint
	mainBal := coinsToAmt(m.pre[m.mainAddr])
	for _, mt := range mints {
		mainBal.Add(coinsToAmt(mt.coins))
	}
	balances := map[string]models.Amt{}
	sweepFails := map[string]bool{}
	for _, k := range sortedAccKeys(m.model.Accs) {
		a := m.model.Accs[k]
		if a.Addr == "" {
			continue
		}
		// what the account holds and can spend (locked vesting coins cannot be taken)
		if _, ok := m.preSpendable[a.Addr]; !ok {
			ad, err := sdk.AccAddressFromBech32(a.Addr)
			if err == nil {
				m.preSpendable[a.Addr] = m.spendableAt(r, ad)
			}
		}
		balances[a.Addr] = coinsToAmt(m.preSpendable[a.Addr])
	}
	if !m.Predictive {
		// under faults a sweep that did not happen is an environment event: observe it
		swept := map[string]bool{}
		for _, t := range transfers {
			if t.to == m.mainAddr {
				swept[t.from] = true
			}
		}
		for _, sd := range m.model.Subs {
			for _, s := range sd.Sources {
				if s.Addr != "" && !m.pre[s.Addr].IsZero() && !swept[s.Addr] {
					sweepFails[s.Key()] = true
				}
			}
		}
	}
	m.model.BeginBlock(mainBal, balances, sweepFails)
	// observed payouts and burns
	addrKeys := map[string][]string{}
	for _, k := range sortedAccKeys(m.model.Accs) {
		a := m.model.Accs[k]
		if a.Addr != "" {
			addrKeys[a.Addr] = append(addrKeys[a.Addr], k)
		}
	}
	for _, t := range transfers {
		if t.from != m.mainAddr {
			continue
		}
		keys := addrKeys[t.to]
		if len(keys) == 0 {
			r.Violate("C04", "shares", "payout-to-unconfigured", "distributor paid %s to %s which is no configured destination", t.coins, t.to)
			continue
		}
		// when several keys share an address give the payout to the one that is owed the most
		best := keys[0]
		if len(keys) > 1 {
			for _, k := range keys[1:] {
				if owedTotal(m.model.Owed[k]).Cmp(owedTotal(m.model.Owed[best])) > 0 {
					best = k
				}
			}
		}
		m.model.Paid(best, coinsToInts(t.coins))
		r.Stats.Inc("probe.dist_payout")
	}
	for _, b := range burns {
		if b.from == m.mainAddr {
			m.model.Paid(models.BurnKey, coinsToInts(b.coins))
			r.Stats.Inc("probe.dist_burn")
		}
	}
	if len(m.model.LastInflow) > 0 {
		r.Stats.Inc("probe.dist_inflow_block")
	}
	if len(m.model.LastInflow) > 1 {
		r.Stats.Inc("probe.dist_multi_subdistributor_block")
	}

	if m.CheckC04 {
		m.evals++
		settled := m.Predictive
		if err := m.model.CheckOwed(settled, distTol); err != nil {
			r.Violate("C04", "shares", "share-drift:"+m.driftClass(), "%v [config %s]", err, m.shape)
		}
	}
	if m.CheckC03 {
		m.evals++
		m.checkBooks(r)
	}
	if m.CheckC18 {
		m.evals++
		m.checkEvents(r, resp.Events)
		m.checkMintEvent(r, resp.Events, mints)
	}
}

func owedTotal(a models.Amt) *big.Rat {
	t := new(big.Rat)
	for _, v := range a {
		t.Add(t, v)
	}
	return t
}

func sortedAccKeys(mp map[string]models.Acc) []string {
	ks := make([]string, 0, len(mp))
	for k := range mp {
		ks = append(ks, k)
	}
	// insertion sort is fine for a handful of keys
	for i := 1; i < len(ks); i++ {
		for j := i; j > 0 && ks[j] < ks[j-1]; j-- {
			ks[j], ks[j-1] = ks[j-1], ks[j]
		}
	}
	return ks
}

// driftClass names the configuration feature a share mismatch is tied to (part of the violation signature).
func (m *distMonitor) driftClass() string {
	var cls []string
	ids := map[string]map[models.AccType]bool{}
	for _, a := range m.model.Accs {
		if a.Type == models.AccMain {
			continue
		}
		if ids[a.ID] == nil {
			ids[a.ID] = map[models.AccType]bool{}
		}
		ids[a.ID][a.Type] = true
	}
	for _, t := range ids {
		if len(t) > 1 {
			cls = append(cls, "id-reused-across-types")
			break
		}
	}
	for _, sd := range m.model.Subs {
		hasMain, nonMainBefore := false, false
		for _, s := range sd.Sources {
			if s.Type == models.AccMain {
				hasMain = true
				break
			}
			nonMainBefore = true
		}
		if hasMain && nonMainBefore {
			cls = append(cls, "non-main-source-before-main")
			break
		}
	}
	shareToMain := false
	for _, sd := range m.model.Subs {
		for _, sh := range sd.Shares {
			if sh.Dest.Type == models.AccMain {
				shareToMain = true
			}
		}
	}
	if shareToMain {
		cls = append(cls, "share-to-main")
	}
	if len(cls) == 0 {
		return "plain"
	}
	return strings.Join(kernel.SortedCopy(cls), "+")
}

// checkBooks: C03 — leftovers non-negative, their sum integral and equal to the main account's balance.
func (m *distMonitor) checkBooks(r *kernel.Run) {
	c := r.Chain
	states := c.DistStates()
	sum := sdk.NewDecCoins()
	for _, st := range states {
		for _, dc := range st.Remains {
			if dc.Amount.IsNegative() {
				r.Violate("C03", "books", "negative-leftover", "recorded leftover %s for %s is negative", dc, stateKey(st))
			}
		}
		sum = sum.Add(st.Remains...)
	}
	whole, frac := sum.TruncateDecimal()
	if !frac.IsZero() {
		r.Violate("C03", "books", "leftovers-not-whole:"+m.driftClass(), "sum of recorded leftovers %s is not a whole number of coins [config %s]", sum, m.shape)
		return
	}
	bal := c.BalanceOf(kernel.DistMainAddr())
	if !coinsEq(whole, bal) {
		r.Violate("C03", "books", "books-vs-balance:"+m.driftClass(), "recorded leftovers sum to %s but the main account holds %s [config %s]", whole, bal, m.shape)
	}
}

// checkEvents: C18 (distribution half) — per sub-distributor the Distribution and DistributionBurn amounts add
// up to its inflow minus what stays in the main account (staying is not a send and has no event).
func (m *distMonitor) checkEvents(r *kernel.Run, evs []abci.Event) {
	sums := map[string]models.Amt{}
	add := func(name string, raw string) {
		var dcs []struct {
			Denom  string `json:"denom"`
			Amount string `json:"amount"`
		}
		if err := json.Unmarshal([]byte(raw), &dcs); err != nil {
			r.Violate("C18", "dist-events", "unparsable-amount", "distribution event amount %q: %v", raw, err)
			return
		}
		if sums[name] == nil {
			sums[name] = models.Amt{}
		}
		for _, d := range dcs {
			v, ok := new(big.Rat).SetString(d.Amount)
			if !ok {
				r.Violate("C18", "dist-events", "unparsable-amount", "distribution event amount %q", d.Amount)
				return
			}
			if sums[name][d.Denom] == nil {
				sums[name][d.Denom] = new(big.Rat)
			}
			sums[name][d.Denom].Add(sums[name][d.Denom], v)
		}
	}
	for _, ev := range kernel.EventAttrs(evs, "chain4energy.c4echain.cfedistributor.Distribution") {
		add(trimQuotes(ev["subdistributor"]), ev["amount"])
	}
	for _, ev := range kernel.EventAttrs(evs, "chain4energy.c4echain.cfedistributor.DistributionBurn") {
		add(trimQuotes(ev["subdistributor"]), ev["amount"])
	}
	names := map[string]bool{}
	for n := range sums {
		names[n] = true
	}
	for n := range m.model.LastInflow {
		names[n] = true
	}
	for n := range names {
		want := models.Amt{}
		if m.model.LastInflow[n] != nil {
			want = m.model.LastInflow[n].Clone()
		}
		if m.model.LastToMain[n] != nil {
			want.Sub(m.model.LastToMain[n])
		}
		got := sums[n]
		if got == nil {
			got = models.Amt{}
		}
		diff := want.Clone()
		diff.Sub(got)
		for _, d := range diff.Denoms() {
			x := new(big.Rat).Abs(diff[d])
			if x.Cmp(distTol) > 0 {
				r.Violate("C18", "dist-events", "distribution-events-vs-inflow", "sub-distributor %s: events add up to %s, inflow minus what stays in main is %s", n, got.String(), want.String())
				return
			}
		}
	}
}

func (m *distMonitor) String() string { return fmt.Sprintf("distMonitor(%s)", m.shape) }

// checkMintEvent: C18 (mint half) — the Mint event carries the amount actually minted in this block
// (the bank's coinbase events of the minter module, which is also the block's supply increase by minting).
func (m *distMonitor) checkMintEvent(r *kernel.Run, evs []abci.Event, mints []transferEv) {
	minterAddr := kernel.ModuleAddr("cfeminter").String()
	denom := r.Chain.MinterParams().MintDenom
	minted := sdk.ZeroInt()
	for _, mt := range mints {
		if mt.from == minterAddr {
			minted = minted.Add(mt.coins.AmountOf(denom))
		}
	}
	mev := kernel.EventAttrs(evs, "chain4energy.c4echain.cfeminter.Mint")
	if len(mev) != 1 {
		r.Violate("C18", "mint-event", "mint-event-count", "%d Mint events in one block", len(mev))
		return
	}
	amt, ok := sdk.NewIntFromString(trimQuotes(mev[0]["amount"]))
	if !ok {
		r.Violate("C18", "mint-event", "unparsable-amount", "Mint event amount %q", mev[0]["amount"])
		return
	}
	if !amt.Equal(minted) {
		r.Violate("C18", "mint-event", "mint-event-amount", "Mint event reports %s, the minter minted %s%s in this block", amt, minted, denom)
	}
	if minted.IsPositive() {
		r.Stats.Inc("probe.mint_event_positive")
	}
}

// spendableAt: balance before the block minus what is locked at this block's time (vesting schedules move with the clock).
func (m *distMonitor) spendableAt(r *kernel.Run, addr sdk.AccAddress) sdk.Coins {
	bal := m.pre[addr.String()]
	locked, _ := r.Chain.SafeLockedCoins(addr)
	sp, neg := bal.SafeSub(locked...)
	if neg {
		out := sdk.NewCoins()
		for _, c := range bal {
			l := locked.AmountOf(c.Denom)
			if c.Amount.GT(l) {
				out = out.Add(sdk.NewCoin(c.Denom, c.Amount.Sub(l)))
			}
		}
		return out
	}
	return sp
}
