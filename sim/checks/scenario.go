package checks

import (
	"fmt"
	"strings"
	"time"

	sdk "github.com/cosmos/cosmos-sdk/types"
	vestingtypes "github.com/cosmos/cosmos-sdk/x/auth/vesting/types"
	banktypes "github.com/cosmos/cosmos-sdk/x/bank/types"
	"github.com/cosmos/cosmos-sdk/x/feegrant"
	abci "github.com/tendermint/tendermint/abci/types"

	"verifsim/kernel"
)

// TxGen proposes the next transaction for the current block (or nil).
type TxGen func(r *kernel.Run, rng *kernel.Rng) *kernel.Tx

// genSource is the seeded generator: block cadence, faults and transactions. What it produces is recorded by
// the Run (Run.Recorded) as concrete steps, so a replay never needs the generator.
type genSource struct {
	rng        *kernel.Rng
	nBlocks    int
	made       int
	Cadence    func(r *kernel.Run, rng *kernel.Rng) int64
	TxGens     []TxGen
	MaxTxs     int
	PTx        float64
	BlockHook  func(r *kernel.Run, rng *kernel.Rng, b *kernel.Block, idx int)
	NoDupStale bool
	// CrashP: probability per block that the node dies before Commit or at the k-th write of the commit batch and is
	// restarted over what the disk kept (F-crash); the block is then re-executed as Tendermint's replay does
	CrashP float64
	// ExportP: probability per block (not the first) that the chain is exported after the block and a fresh node is
	// initialised from the exported genesis (F-export)
	ExportP float64
	// SimP: probability that a generated transaction is diverted: only handed to the node's Simulate service
	// (F-simulate) or replaced by the product of one of SimGens (rolled-back governance executions, F-rollback)
	SimP      float64
	SimGens   []TxGen
	txInBlock int
	txQuota   int
}

func (g *genSource) NextBlock(r *kernel.Run) *kernel.Block {
	if g.made >= g.nBlocks {
		return nil
	}
	b := &kernel.Block{DtNs: g.Cadence(r, g.rng)}
	if g.BlockHook != nil {
		g.BlockHook(r, g.rng, b, g.made)
	}
	if g.ExportP > 0 && g.made > 0 && b.Crash == 0 && g.rng.P(g.ExportP) {
		b.Export = true
	}
	if g.CrashP > 0 && b.Crash == 0 && !b.Export && g.rng.P(g.CrashP) {
		if g.rng.Bool() {
			b.Crash = -1
		} else {
			b.Crash = g.rng.Range(1, 24)
		}
	}
	g.made++
	g.txInBlock = 0
	g.txQuota = 0
	if len(g.TxGens) > 0 && g.MaxTxs > 0 && g.rng.P(g.PTx) {
		g.txQuota = g.rng.Range(1, g.MaxTxs)
	}
	return b
}

func (g *genSource) NextTx(r *kernel.Run, b *kernel.Block) *kernel.Tx {
	if g.txInBlock >= g.txQuota {
		return nil
	}
	g.txInBlock++
	if g.SimP > 0 && g.rng.P(g.SimP) {
		for tries := 0; tries < 4; tries++ {
			var gen TxGen
			if k := g.rng.Intn(2 * len(g.SimGens)); k < len(g.SimGens) {
				gen = g.SimGens[k]
			} else {
				gen = g.TxGens[g.rng.Intn(len(g.TxGens))]
			}
			if tx := gen(r, g.rng); tx != nil && tx.Route != "sig" {
				if tx.Route != "atomic" {
					tx.Route, tx.Dup, tx.SeqDelta = "sim", false, 0
				}
				return tx
			}
		}
	}
	for tries := 0; tries < 4; tries++ {
		gen := g.TxGens[g.rng.Intn(len(g.TxGens))]
		if tx := gen(r, g.rng); tx != nil {
			// F-order: the mempool sometimes delivers a transaction twice, or replays one with a stale sequence
			if tx.Route == "" && !g.NoDupStale {
				switch g.rng.Intn(30) {
				case 0:
					tx.Dup = true
				case 1:
					tx.SeqDelta = -1
				}
			}
			return tx
		}
	}
	return nil
}

// regularCadence: 5-7 s blocks with occasional long jumps and minimal steps.
func regularCadence(r *kernel.Run, rng *kernel.Rng) int64 {
	switch rng.Intn(20) {
	case 0:
		return int64(time.Duration(rng.Range(1, 48)) * time.Hour)
	case 1:
		return 1 // one nanosecond
	case 2:
		return int64(time.Millisecond)
	case 3:
		return int64(time.Duration(rng.Range(1, 400)) * 24 * time.Hour)
	}
	return int64(5*time.Second) + rng.I64n(int64(2*time.Second))
}

// haltMonitor reports panics that escape BeginBlock/EndBlock (C10) in every profile.
type haltMonitor struct{ kernel.NopMonitor }

func (haltMonitor) AfterBegin(r *kernel.Run, _ abci.ResponseBeginBlock) { reportHalt(r) }
func (haltMonitor) AfterEnd(r *kernel.Run, _ abci.ResponseEndBlock)     { reportHalt(r) }

// execTrace runs one chain over tr.Spec with the monitors; src == nil replays tr.Blocks.
func execTrace(tr *kernel.Trace, src kernel.Source, mons []kernel.Monitor, useBankHook bool) (*kernel.Run, *Outcome) {
	o := &Outcome{Trace: tr}
	spec := tr.Spec
	run := &kernel.Run{Spec: &spec, Monitors: mons, StopOnViolation: true, UseBankHook: useBankHook, NodeOpts: tr.Node}
	if pi := run.Start(); pi != nil || run.InfraErr != nil {
		if run.InfraErr != nil {
			o.InfraErr = run.InfraErr
		} else {
			o.InfraErr = fmt.Errorf("generated genesis rejected by InitChain: %s", pi.Value)
		}
		return run, o
	}
	if src == nil {
		src = &listSource{blocks: tr.Blocks}
		run.Drive(src)
	} else {
		run.Drive(src)
		tr.Blocks = run.Recorded
	}
	o.Stats.Merge(&run.Stats)
	o.Violations = run.Violations
	o.InfraErr = run.InfraErr
	return run, o
}

// bankSendGen: a client sends part of its balance of a random denom to another address, paying a small fee
// in a random denom it holds (fees land in fee_collector, a typical distributor source).
func bankSendGen(senders []string, recipients []string, withFees bool, squat ...bool) TxGen {
	allowSquat := len(squat) > 0 && squat[0]
	return func(r *kernel.Run, rng *kernel.Rng) *kernel.Tx {
		from := senders[rng.Intn(len(senders))]
		bal := r.Chain.BalanceOf(kernel.ActorAddr(from))
		if bal.IsZero() {
			return nil
		}
		coin := bal[rng.Intn(len(bal))]
		amt := coin.Amount.QuoRaw(int64(rng.Range(2, 50)))
		if !amt.IsPositive() {
			return nil
		}
		to := recipients[rng.Intn(len(recipients))]
		if rng.Intn(12) == 0 {
			// somebody pays straight into a module account the distributor uses (the bank refuses blocked addresses)
			if k := rng.Intn(len(distModuleAccounts) + 1); k < len(distModuleAccounts) {
				to = kernel.ModuleAddr(distModuleAccounts[k]).String()
			} else {
				to = kernel.DistMainAddr().String()
			}
		}
		var msg sdk.Msg = &banktypes.MsgSend{FromAddress: kernel.ActorBech(from), ToAddress: to, Amount: sdk.NewCoins(sdk.NewCoin(coin.Denom, amt))}
		if allowSquat && rng.Intn(25) == 0 {
			// other SDK routes that create an account at an address somebody names: a fee allowance for, or a periodic
			// vesting account at, the address of a collector module account (which may not exist in the store yet)
			target := kernel.ModuleAddr(distModuleAccounts[rng.Intn(len(distModuleAccounts))])
			if rng.Bool() {
				if g, err := feegrant.NewMsgGrantAllowance(&feegrant.BasicAllowance{}, kernel.ActorAddr(from), target); err == nil {
					msg = g
				}
			} else {
				msg = vestingtypes.NewMsgCreatePeriodicVestingAccount(kernel.ActorAddr(from), target, r.Chain.Now.Unix(),
					[]vestingtypes.Period{{Length: 1, Amount: sdk.NewCoins(sdk.NewCoin(coin.Denom, sdk.OneInt()))}})
			}
		}
		js, err := kernel.MsgToJSON(msg)
		if err != nil {
			return nil
		}
		tx := &kernel.Tx{Signer: from, Msgs: []jsonRaw{js}}
		if withFees {
			fc := bal[rng.Intn(len(bal))]
			fee := fc.Amount.QuoRaw(int64(rng.Range(100, 10000)))
			if fc.Denom == coin.Denom {
				rest := coin.Amount.Sub(amt)
				if fee.GT(rest) {
					fee = rest
				}
			}
			if fee.IsPositive() {
				tx.Fee = sdk.NewCoin(fc.Denom, fee).String()
			}
		}
		return tx
	}
}

// simOverlay switches two "nothing may stick" faults on for a source. A quarter of the generated transactions are
// diverted: half of them are only handed to the node's Simulate service (F-simulate; the ante chain of this SDK refuses
// module-account signers there, so these are ordinary client transactions), the other half are rolled-back governance
// executions (F-rollback): a parameter update of one of the three configurable modules naming the governance
// authority, followed by a message that must fail, executed the way x/gov executes the messages of a passed
// proposal - on one cached context that is dropped when a message fails. Afterwards the chain must behave by
// the stored configuration; the property's oracles keep running unchanged.
func simOverlay(src *genSource, spec *kernel.WorldSpec) {
	distCfg := DistGenCfg{MaxSubs: 3, MultiSource: true, ShareToMain: true, AllowBurn: true}
	for _, c := range spec.Clients {
		distCfg.BaseAddrs = append(distCfg.BaseAddrs, kernel.ActorBech(c))
	}
	mcfg := MinterGenCfg{MaxPeriods: 3, MaxAmountExp: 24, MaxStepsHint: 200, Horizon: 2000 * 3600 * 1e9, AllowNone: true}
	g := &govWorld{Voter: spec.Clients[0], Attackers: spec.Clients, DistCfg: distCfg, MinterCfg: mcfg, SaneMinter: true}
	huge, _ := sdk.NewIntFromString("1" + strings.Repeat("0", 40))
	failing := &banktypes.MsgSend{FromAddress: gov(), ToAddress: kernel.ActorBech(spec.Clients[0]), Amount: sdk.NewCoins(sdk.NewCoin("nosuchcoin", huge))}
	rolledBack := func(r *kernel.Run, rng *kernel.Rng) *kernel.Tx {
		var m sdk.Msg
		switch rng.Intn(3) {
		case 0:
			m = g.minterUpdate(r, rng, gov())
		case 1:
			m = g.distUpdate(r, rng, gov())
		default:
			m = g.vestingUpdate(r, rng, gov())
		}
		if m == nil {
			return nil
		}
		j1, err1 := kernel.MsgToJSON(m)
		j2, err2 := kernel.MsgToJSON(failing)
		if err1 != nil || err2 != nil {
			return nil
		}
		return &kernel.Tx{Signer: spec.Clients[0], Msgs: []jsonRaw{j1, j2}, Route: "atomic", Note: "rolled-back-gov-update"}
	}
	src.SimP = 0.25
	src.SimGens = []TxGen{rolledBack}
}
