package checks

import (
	"fmt"
	"time"

	sdk "github.com/cosmos/cosmos-sdk/types"
	banktypes "github.com/cosmos/cosmos-sdk/x/bank/types"
	abci "github.com/tendermint/tendermint/abci/types"

	"verifsim/kernel"
)

// TxGen proposes the next transaction for the current block (or nil).
type TxGen func(r *kernel.Run, rng *kernel.Rng) *kernel.Tx

// genSource is the seeded generator: block cadence, faults and transactions. What it produces is recorded by
// the Run (Run.Recorded) as concrete steps, so a replay never needs the generator.
type genSource struct {
	rng        *kernel.Rng
	nBlocks    int
	made       int
	Cadence    func(r *kernel.Run, rng *kernel.Rng) int64
	TxGens     []TxGen
	MaxTxs     int
	PTx        float64
	BlockHook  func(r *kernel.Run, rng *kernel.Rng, b *kernel.Block, idx int)
	NoDupStale bool
	txInBlock  int
	txQuota    int
}

func (g *genSource) NextBlock(r *kernel.Run) *kernel.Block {
	if g.made >= g.nBlocks {
		return nil
	}
	b := &kernel.Block{DtNs: g.Cadence(r, g.rng)}
	if g.BlockHook != nil {
		g.BlockHook(r, g.rng, b, g.made)
	}
	g.made++
	g.txInBlock = 0
	g.txQuota = 0
	if len(g.TxGens) > 0 && g.MaxTxs > 0 && g.rng.P(g.PTx) {
		g.txQuota = g.rng.Range(1, g.MaxTxs)
	}
	return b
}

func (g *genSource) NextTx(r *kernel.Run, b *kernel.Block) *kernel.Tx {
	if g.txInBlock >= g.txQuota {
		return nil
	}
	g.txInBlock++
	for tries := 0; tries < 4; tries++ {
		gen := g.TxGens[g.rng.Intn(len(g.TxGens))]
		if tx := gen(r, g.rng); tx != nil {
			// F-order: the mempool sometimes delivers a transaction twice, or replays one with a stale sequence
			if tx.Route == "" && !g.NoDupStale {
				switch g.rng.Intn(30) {
				case 0:
					tx.Dup = true
				case 1:
					tx.SeqDelta = -1
				}
			}
			return tx
		}
	}
	return nil
}

// regularCadence: 5-7 s blocks with occasional long jumps and minimal steps.
func regularCadence(r *kernel.Run, rng *kernel.Rng) int64 {
	switch rng.Intn(20) {
	case 0:
		return int64(time.Duration(rng.Range(1, 48)) * time.Hour)
	case 1:
		return 1 // one nanosecond
	case 2:
		return int64(time.Millisecond)
	case 3:
		return int64(time.Duration(rng.Range(1, 400)) * 24 * time.Hour)
	}
	return int64(5*time.Second) + rng.I64n(int64(2*time.Second))
}

// haltMonitor reports panics that escape BeginBlock/EndBlock (C10) in every profile.
type haltMonitor struct{ kernel.NopMonitor }

func (haltMonitor) AfterBegin(r *kernel.Run, _ abci.ResponseBeginBlock) { reportHalt(r) }
func (haltMonitor) AfterEnd(r *kernel.Run, _ abci.ResponseEndBlock)     { reportHalt(r) }

// execTrace runs one chain over tr.Spec with the monitors; src == nil replays tr.Blocks.
func execTrace(tr *kernel.Trace, src kernel.Source, mons []kernel.Monitor, useBankHook bool) (*kernel.Run, *Outcome) {
	o := &Outcome{Trace: tr}
	spec := tr.Spec
	run := &kernel.Run{Spec: &spec, Monitors: mons, StopOnViolation: true, UseBankHook: useBankHook}
	if pi := run.Start(); pi != nil || run.InfraErr != nil {
		if run.InfraErr != nil {
			o.InfraErr = run.InfraErr
		} else {
			o.InfraErr = fmt.Errorf("generated genesis rejected by InitChain: %s", pi.Value)
		}
		return run, o
	}
	if src == nil {
		src = &listSource{blocks: tr.Blocks}
		run.Drive(src)
	} else {
		run.Drive(src)
		tr.Blocks = run.Recorded
	}
	o.Stats.Merge(&run.Stats)
	o.Violations = run.Violations
	o.InfraErr = run.InfraErr
	return run, o
}

// bankSendGen: a client sends part of its balance of a random denom to another address, paying a small fee
// in a random denom it holds (fees land in fee_collector, a typical distributor source).
func bankSendGen(senders []string, recipients []string, withFees bool) TxGen {
	return func(r *kernel.Run, rng *kernel.Rng) *kernel.Tx {
		from := senders[rng.Intn(len(senders))]
		bal := r.Chain.BalanceOf(kernel.ActorAddr(from))
		if bal.IsZero() {
			return nil
		}
		coin := bal[rng.Intn(len(bal))]
		amt := coin.Amount.QuoRaw(int64(rng.Range(2, 50)))
		if !amt.IsPositive() {
			return nil
		}
		to := recipients[rng.Intn(len(recipients))]
		msg := &banktypes.MsgSend{FromAddress: kernel.ActorBech(from), ToAddress: to, Amount: sdk.NewCoins(sdk.NewCoin(coin.Denom, amt))}
		js, err := kernel.MsgToJSON(msg)
		if err != nil {
			return nil
		}
		tx := &kernel.Tx{Signer: from, Msgs: []jsonRaw{js}}
		if withFees {
			fc := bal[rng.Intn(len(bal))]
			fee := fc.Amount.QuoRaw(int64(rng.Range(100, 10000)))
			if fc.Denom == coin.Denom {
				rest := coin.Amount.Sub(amt)
				if fee.GT(rest) {
					fee = rest
				}
			}
			if fee.IsPositive() {
				tx.Fee = sdk.NewCoin(fc.Denom, fee).String()
			}
		}
		return tx
	}
}
