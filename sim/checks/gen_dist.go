package checks

import (
	"strings"
	"encoding/json"
	"fmt"
	"math/big"

	disttypes "github.com/chain4energy/c4e-chain/x/cfedistributor/types"
	sdk "github.com/cosmos/cosmos-sdk/types"
	authtypes "github.com/cosmos/cosmos-sdk/x/auth/types"

	"verifsim/kernel"
	"verifsim/models"
)

// DistGenCfg: swarm toggles of the sub-distributor generator.
type DistGenCfg struct {
	MaxSubs          int
	BaseAddrs        []string // candidate BASE_ACCOUNT ids (plain accounts)
	BlockedBaseAddrs []string // BASE_ACCOUNT ids that cannot receive funds (natural fault); used only when non-empty
	LockedBaseAddrs  []string // BASE_ACCOUNT sources that are vesting accounts with locked coins (natural fault)
	MultiSource      bool
	ShareToMain      bool
	IDCollisions     bool // INTERNAL ids equal to module account names / bech32 addresses
	SelfAsModule     bool // name the distributor's own account as a MODULE_ACCOUNT
	AllowBurn        bool
	Respell          bool // write some BASE_ACCOUNT ids in the upper-case bech32 spelling (the same account, another string)
	NoVRCSource      bool // never sweep validators_rewards_collector (x/distribution empties it every block: a competing consumer)
}

// module accounts the generator may name (never the staking pools, distribution, cfeminter, cfevesting: legal,
// but sweeping them wrecks SDK modules' own invariants, which is outside these properties).
var distModuleAccounts = []string{
	authtypes.FeeCollectorName,
	disttypes.ValidatorsRewardsCollector,
	disttypes.GreenEnergyBoosterCollector,
	disttypes.GovernanceBoosterCollector,
}

func genShare(r *kernel.Rng) sdk.Dec {
	switch r.Intn(6) {
	case 0:
		return sdk.NewDecWithPrec(int64(r.Range(1, 9)), 1)
	case 1:
		return sdk.NewDecWithPrec(int64(r.Range(1, 99)), 2)
	case 2:
		return sdk.NewDecWithPrec(int64(r.Range(1, 999)), 18) // tiny
	case 3:
		return sdk.NewDecWithPrec(333333333333333333, 18)
	default:
		v := r.BigBelow(bigE18)
		return sdk.NewDecFromBigIntWithPrec(v, 18)
	}
}

// GenDistParams draws a sub-distributor configuration accepted by the repository's own Validate().
func GenDistParams(r *kernel.Rng, cfg DistGenCfg) (disttypes.Params, error) {
	for attempt := 0; attempt < 200; attempt++ {
		p, ok := genDistOnce(r, cfg)
		if !ok {
			continue
		}
		if err := p.Validate(); err == nil {
			return p, nil
		}
	}
	return disttypes.Params{}, fmt.Errorf("distributor generator could not produce a valid configuration")
}

func genDistOnce(r *kernel.Rng, cfg DistGenCfg) (disttypes.Params, bool) {
	nInternal := r.Range(0, 3)
	var internals []disttypes.Account
	for i := 0; i < nInternal; i++ {
		id := fmt.Sprintf("int%d", i+1)
		if cfg.IDCollisions && r.P(0.5) {
			if r.Bool() {
				id = distModuleAccounts[r.Intn(len(distModuleAccounts))]
			} else if len(cfg.BaseAddrs) > 0 {
				id = cfg.BaseAddrs[r.Intn(len(cfg.BaseAddrs))]
			}
		}
		if cfg.Respell && i > 0 && len(internals) > 0 && r.P(0.5) {
			// internal accounts are names: two ids that differ only in letter case are two accounts
			id = strings.ToUpper(internals[0].Id)
		}
		dup := false
		for _, x := range internals {
			if x.Id == id {
				dup = true
			}
		}
		if !dup {
			internals = append(internals, disttypes.Account{Id: id, Type: disttypes.InternalAccount})
		}
	}
	var pool []disttypes.Account
	pool = append(pool, internals...)
	for _, m := range distModuleAccounts {
		pool = append(pool, disttypes.Account{Id: m, Type: disttypes.ModuleAccount})
	}
	if cfg.SelfAsModule {
		pool = append(pool, disttypes.Account{Id: disttypes.DistributorMainAccount, Type: disttypes.ModuleAccount})
		// ... or by its address as a BASE_ACCOUNT
		pool = append(pool, disttypes.Account{Id: authtypes.NewModuleAddress(disttypes.DistributorMainAccount).String(), Type: disttypes.BaseAccount})
	}
	for _, a := range cfg.BaseAddrs {
		pool = append(pool, disttypes.Account{Id: a, Type: disttypes.BaseAccount})
	}
	main := disttypes.Account{Id: "", Type: disttypes.Main}

	pick := func(used map[string]bool, allowMain bool, srcRole bool) (disttypes.Account, bool) {
		for k := 0; k < 20; k++ {
			var a disttypes.Account
			x := r.Intn(len(pool) + 2)
			if x >= len(pool) {
				if !allowMain {
					continue
				}
				a = main
			} else {
				a = pool[x]
			}
			if !srcRole && len(cfg.BlockedBaseAddrs) > 0 && r.P(0.15) {
				a = disttypes.Account{Id: cfg.BlockedBaseAddrs[r.Intn(len(cfg.BlockedBaseAddrs))], Type: disttypes.BaseAccount}
			}
			if srcRole && len(cfg.LockedBaseAddrs) > 0 && r.P(0.2) {
				a = disttypes.Account{Id: cfg.LockedBaseAddrs[r.Intn(len(cfg.LockedBaseAddrs))], Type: disttypes.BaseAccount}
			}
			key := a.Type + "-" + a.Id
			if a.Type == disttypes.Main {
				key = disttypes.Main
			}
			if used[key] {
				continue
			}
			if srcRole && cfg.NoVRCSource && a.Id == disttypes.ValidatorsRewardsCollector {
				continue
			}
			used[key] = true
			return a, true
		}
		return disttypes.Account{}, false
	}

	n := r.Range(1, cfg.MaxSubs)
	var subs []disttypes.SubDistributor
	shareNo := 0
	for i := 0; i < n; i++ {
		used := map[string]bool{}
		sd := disttypes.SubDistributor{Name: fmt.Sprintf("sd%d", i+1)}
		ns := 1
		if cfg.MultiSource {
			ns = r.Range(1, 3)
		}
		for k := 0; k < ns; k++ {
			a, ok := pick(used, true, true)
			if !ok {
				break
			}
			ac := a
			sd.Sources = append(sd.Sources, &ac)
		}
		if len(sd.Sources) == 0 {
			return disttypes.Params{}, false
		}
		prim, ok := pick(used, cfg.ShareToMain && r.P(0.3), false)
		if !ok {
			return disttypes.Params{}, false
		}
		sd.Destinations.PrimaryShare = prim
		sd.Destinations.BurnShare = sdk.ZeroDec()
		budget := sdk.OneDec()
		if cfg.AllowBurn && r.P(0.4) {
			b := genShare(r)
			if b.LT(budget) {
				sd.Destinations.BurnShare = b
				budget = budget.Sub(b)
			}
		}
		nsh := r.Range(0, 3)
		// "filled" mode: n equal shares that leave only n*1e-18 (or nothing but dust) to the primary destination
		filled := r.P(0.25)
		var fillShare sdk.Dec
		if filled {
			nsh = r.Range(2, 4)
			fillShare = sdk.NewDecFromBigIntWithPrec(new(big.Int).Quo(budget.BigInt(), big.NewInt(int64(nsh))), 18)
		}
		for k := 0; k < nsh; k++ {
			sh := genShare(r)
			if filled {
				sh = fillShare
			}
			if !sh.LT(budget) {
				sh = budget.QuoInt64(2)
			}
			if sh.IsZero() && r.Bool() {
				continue
			}
			d, ok := pick(used, cfg.ShareToMain && r.P(0.35), false)
			if !ok {
				break
			}
			shareNo++
			sd.Destinations.Shares = append(sd.Destinations.Shares, &disttypes.DestinationShare{Name: fmt.Sprintf("share%d", shareNo), Share: sh, Destination: d})
			budget = budget.Sub(sh)
		}
		subs = append(subs, sd)
	}
	// make the ordering rule hold: last occurrence of MAIN and of every INTERNAL account must be as a source
	lastRole := map[string]string{}
	accOf := map[string]disttypes.Account{}
	note := func(a disttypes.Account, role string) {
		if a.Type == disttypes.Main {
			lastRole["MAIN"] = role
			accOf["MAIN"] = a
		} else if a.Type == disttypes.InternalAccount {
			lastRole[a.Type+"-"+a.Id] = role
			accOf[a.Type+"-"+a.Id] = a
		}
	}
	for _, sd := range subs {
		for _, s := range sd.Sources {
			note(*s, "S")
		}
		note(sd.Destinations.PrimaryShare, "D")
		for _, sh := range sd.Destinations.Shares {
			note(sh.Destination, "D")
		}
	}
	var pending []disttypes.Account
	if lastRole["MAIN"] != "S" {
		pending = append(pending, main)
	}
	for _, k := range kernel.SortedKeys(lastRole) {
		if k != "MAIN" && lastRole[k] != "S" {
			pending = append(pending, accOf[k])
		}
	}
	if len(pending) > 0 {
		r.Shuffle(len(pending), func(i, j int) { pending[i], pending[j] = pending[j], pending[i] })
		// drain them in one or several trailing sub-distributors
		for len(pending) > 0 {
			k := 1
			if cfg.MultiSource {
				k = r.Range(1, len(pending))
			}
			sd := disttypes.SubDistributor{Name: fmt.Sprintf("drain%d", len(subs)+1)}
			used := map[string]bool{}
			for _, a := range pending[:k] {
				ac := a
				sd.Sources = append(sd.Sources, &ac)
				if a.Type == disttypes.Main {
					used["MAIN"] = true
				} else {
					used[a.Type+"-"+a.Id] = true
				}
			}
			pending = pending[k:]
			// destination: a module or base account (never main/internal, so nothing new is pending)
			var dst disttypes.Account
			for tries := 0; ; tries++ {
				c := pool[r.Intn(len(pool))]
				if c.Type != disttypes.InternalAccount && !used[c.Type+"-"+c.Id] {
					dst = c
					break
				}
				if tries > 50 {
					return disttypes.Params{}, false
				}
			}
			sd.Destinations.PrimaryShare = dst
			sd.Destinations.BurnShare = sdk.ZeroDec()
			if cfg.AllowBurn && r.P(0.3) {
				sd.Destinations.BurnShare = genShare(r)
			}
			subs = append(subs, sd)
		}
	}
	if cfg.Respell {
		up := func(a *disttypes.Account) {
			if a.Type == disttypes.BaseAccount && r.P(0.4) {
				a.Id = strings.ToUpper(a.Id)
			}
		}
		for i := range subs {
			for _, s := range subs[i].Sources {
				up(s)
			}
			up(&subs[i].Destinations.PrimaryShare)
			for _, sh := range subs[i].Destinations.Shares {
				up(&sh.Destination)
			}
		}
	}
	return disttypes.Params{SubDistributors: subs}, true
}

// canonBaseID: the canonical spelling of a BASE_ACCOUNT id (one account, whatever the letter case of its bech32 string)
func canonBaseID(id string) string {
	if a, err := sdk.AccAddressFromBech32(id); err == nil {
		return a.String()
	}
	return id
}

func DistGenesisJSON(p disttypes.Params) json.RawMessage {
	gs := disttypes.GenesisState{Params: p}
	return kernel.Enc().Marshaler.MustMarshalJSON(&gs)
}

func accToModel(a disttypes.Account) models.Acc {
	o := models.Acc{Type: models.AccType(a.Type), ID: a.Id}
	switch a.Type {
	case disttypes.ModuleAccount:
		o.Addr = authtypes.NewModuleAddress(a.Id).String()
	case disttypes.BaseAccount:
		// the model knows accounts, not strings: both spellings of an address are the same account
		o.ID = canonBaseID(a.Id)
		o.Addr = o.ID
	case disttypes.Main:
		o.ID = ""
	}
	return o
}

func decToRat(d sdk.Dec) *big.Rat {
	return new(big.Rat).SetFrac(d.BigInt(), bigE18)
}

// DistModelSubs converts stored parameters into the model's own configuration (data only).
func DistModelSubs(p disttypes.Params) []models.SubDist {
	var out []models.SubDist
	for _, sd := range p.SubDistributors {
		m := models.SubDist{Name: sd.Name, Primary: accToModel(sd.Destinations.PrimaryShare), Burn: decToRat(sd.Destinations.BurnShare)}
		for _, s := range sd.Sources {
			m.Sources = append(m.Sources, accToModel(*s))
		}
		for _, sh := range sd.Destinations.Shares {
			m.Shares = append(m.Shares, models.DShare{Name: sh.Name, Dest: accToModel(sh.Destination), Share: decToRat(sh.Share)})
		}
		out = append(out, m)
	}
	return out
}

func distShape(p disttypes.Params) string {
	s := ""
	for _, sd := range p.SubDistributors {
		s += "["
		for _, x := range sd.Sources {
			s += x.Type[:2]
		}
		s += ">" + sd.Destinations.PrimaryShare.Type[:2]
		for _, sh := range sd.Destinations.Shares {
			s += "," + sh.Destination.Type[:2]
		}
		if sd.Destinations.BurnShare.IsPositive() {
			s += ",BURN"
		}
		s += "]"
	}
	return s
}

// distFlowDepth analyses the account graph (an edge from every source of a sub-distributor to each of its
// destinations): whether coins can circulate forever, and the longest chain of hops otherwise.
func distFlowDepth(p disttypes.Params) (depth int, cyclic bool) {
	key := func(a disttypes.Account) string {
		if a.Type == disttypes.Main {
			return "MAIN"
		}
		if a.Type == disttypes.BaseAccount {
			return a.Type + "-" + canonBaseID(a.Id)
		}
		return a.Type + "-" + a.Id
	}
	adj := map[string]map[string]bool{}
	nodes := map[string]bool{}
	for _, sd := range p.SubDistributors {
		var dsts []string
		dsts = append(dsts, key(sd.Destinations.PrimaryShare))
		for _, sh := range sd.Destinations.Shares {
			dsts = append(dsts, key(sh.Destination))
		}
		for _, s := range sd.Sources {
			sk := key(*s)
			nodes[sk] = true
			if adj[sk] == nil {
				adj[sk] = map[string]bool{}
			}
			for _, d := range dsts {
				nodes[d] = true
				adj[sk][d] = true
			}
		}
	}
	state := map[string]int{} // 0 unseen, 1 on stack, 2 done
	memo := map[string]int{}
	var dfs func(n string) int
	dfs = func(n string) int {
		if state[n] == 1 {
			cyclic = true
			return 0
		}
		if state[n] == 2 {
			return memo[n]
		}
		state[n] = 1
		best := 0
		for _, m := range kernel.SortedKeys(boolMapToIface(adj[n])) {
			if d := dfs(m) + 1; d > best {
				best = d
			}
		}
		state[n] = 2
		memo[n] = best
		return best
	}
	for _, n := range kernel.SortedKeys(boolMapToIface(nodes)) {
		if d := dfs(n); d > depth {
			depth = d
		}
	}
	return
}

func boolMapToIface(m map[string]bool) map[string]bool { return m }
