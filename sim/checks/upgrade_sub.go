package checks

import (
	"fmt"
	"strings"

	"verifsim/kernel"
)

// Upgrade sub-profiles. The v1.2.0 upgrade (its handler and the store migrations it runs) rewrites the state most
// properties talk about. C16 decides what the upgrade itself promises; on top of that, every twelfth run of C02, C03, C10
// and C13 is the upgrade world of C16 (a generated store rewritten into the v1.1.0 layout, the real handler run by
// x/upgrade, crashes in the preparing, the upgrading and the following block, post-upgrade traffic) judged by the
// part of the verdicts that belongs to that property. C05, C11 and C17 have sub-profiles of their own (see their files).
type upgradeSub struct {
	every uint64
	keep  func(v *kernel.Violation) bool // which of the upgrade world's verdicts this property owns
}

var upgradeSubs = map[string]upgradeSub{
	// the books of the distributor still match its main account after the store was migrated
	"C03": {12, func(v *kernel.Violation) bool { return v.Property == "C03" }},
	// the migrated schedule is the legacy one (what is emitted afterwards follows it)
	"C02": {12, func(v *kernel.Violation) bool { return v.Signature == "minter-schedule-changed" }},
	// nothing the upgrade leaves behind may halt block processing: not the upgrade block, not the blocks after it
	"C10": {12, func(v *kernel.Violation) bool {
		return v.Check == "upgrade-runs" || v.Check == "chain-continues"
	}},
	// stored parameters stay valid and the minter's current period exists, also across the parameter migrations
	"C13": {12, func(v *kernel.Violation) bool {
		return v.Property == "C13" || strings.HasPrefix(v.Signature, "migrated-")
	}},
}

func upgradeSubExec(id string, tr *kernel.Trace) *Outcome {
	o := c16Replay(tr)
	sub := upgradeSubs[id]
	var keep []*kernel.Violation
	for _, v := range o.Violations {
		if sub.keep(v) {
			if v.Property != id {
				v.Message = fmt.Sprintf("[upgrade sub-profile, oracle %s/%s] %s", v.Property, v.Check, v.Message)
				v.Property = id
			}
			keep = append(keep, v)
		}
	}
	o.Violations = keep
	o.Stats.Inc("probe.upgrade_sub_profile_run")
	return o
}

// applyUpgradeSubProfiles wraps the registered RunSeed/Replay of the properties above (called once from Main).
func applyUpgradeSubProfiles() {
	for id, sub := range upgradeSubs {
		p := registry[id]
		if p == nil || p.upgradeWrapped {
			continue
		}
		id, sub, run, replay := id, sub, p.RunSeed, p.Replay
		p.upgradeWrapped = true
		p.RunSeed = func(seed uint64, tier string) *Outcome {
			if seed%sub.every == sub.every-1 {
				tr := c16Trace(seed)
				var x c16Extra
				_ = jsonUnmarshal(tr.Extra, &x)
				x.ForProp = id
				tr.Extra = mustJSON(x)
				tr.Profile = id
				return upgradeSubExec(id, tr)
			}
			return run(seed, tier)
		}
		p.Replay = func(tr *kernel.Trace) *Outcome {
			var x c16Extra
			if len(tr.Extra) > 0 && jsonUnmarshal(tr.Extra, &x) == nil && x.ForProp == id {
				return upgradeSubExec(id, tr)
			}
			return replay(tr)
		}
		p.FaultKinds = append(p.FaultKinds, "F-upgrade (every twelfth run: the upgrade world of C16 judged by this property's part of the verdicts)")
	}
}
