package checks

import (
	"fmt"

	disttypes "github.com/chain4energy/c4e-chain/x/cfedistributor/types"

	"verifsim/kernel"
)

// C03 — distributor books always match the coins it holds.
// C04 — every destination receives exactly its configured share (against M-dist).

var distReal = []string{"app.App over ABCI (BeginBlock, DeliverTx with ante handlers and signature verification, EndBlock, Commit)", "x/cfedistributor", "x/cfeminter", "x/bank, x/auth, x/staking, x/distribution", "IAVL/rootmulti stores on the simulated disk"}
var distStub = []string{"Tendermint consensus, p2p, mempool (the simulator is proposer and mempool)"}

func init() {
	Register(&Prop{
		ID:    "C03",
		Level: "exploration",
		Rule: "one run = one sub-distributor configuration drawn from the biased generator and accepted by Params.Validate() (1-6 sub-distributors, multi-source in any order, " +
			"shares to MAIN, INTERNAL ids reused across types, 1-3 denominations), driven for 10-40 blocks with minted, fee and bank-send inflows; books checked after every BeginBlock. " +
			"non-trivial = at least one block had inflow and a payout or burn happened; distinct = hash of the configuration shape (account types per source/destination), probes and outcome",
		Quick:      Tier{Runs: 1500, BudgetSec: 50},
		Thorough:   Tier{Runs: 40000, BudgetSec: 780},
		RunSeed:    func(seed uint64, tier string) *Outcome { return distRunSeed("C03", seed, tier) },
		Replay:     func(tr *kernel.Trace) *Outcome { return distReplay("C03", tr) },
		Real:       distReal,
		Stub:       distStub,
		Assumes:    []string{"generator never names staking pools, distribution, cfeminter or cfevesting accounts as sources", "amounts <= 1e30"},
		FaultKinds: []string{"F-clock", "F-order (fee-paying bank traffic between blocks)", "F-crash (every fifth run: death before / inside Commit in ~12% of the blocks, restart, re-execution)", "F-simulate + F-rollback (every fifth run: a quarter of the transactions are only handed to the Simulate service, or are a governance execution [parameter update, failing message] that x/gov drops as a whole; nothing of either may stick)", "F-export (every fifth run: export and restart from the exported genesis after ~8% of the blocks)"},
	})
	Register(&Prop{
		ID:    "C04",
		Level: "exploration",
		Rule: "same configurations and traffic as C03; the exact-rational reference model M-dist (accounts keyed by (type,id), sources as a set, external inflows observed) runs next to the chain; " +
			"after every block each final destination and the burn must be owed in [0,1) base units. non-trivial = inflow and at least one payout; distinct = hash of configuration shape, probes and outcome",
		Quick:      Tier{Runs: 1500, BudgetSec: 50},
		Thorough:   Tier{Runs: 40000, BudgetSec: 780},
		RunSeed:    func(seed uint64, tier string) *Outcome { return distRunSeed("C04", seed, tier) },
		Replay:     func(tr *kernel.Trace) *Outcome { return distReplay("C04", tr) },
		Real:       distReal,
		Stub:       distStub,
		Assumes:    []string{"tolerance 1e-6 base units absorbs the chain's 18-digit truncation of shares over a run", "payouts are attributed by bank transfer events whose sender is the distributor's main account"},
		FaultKinds: []string{"F-clock", "F-order (fee-paying bank traffic between blocks)", "F-crash (every fifth run: death before / inside Commit in ~12% of the blocks, restart, re-execution)", "F-simulate + F-rollback (every fifth run: a quarter of the transactions are only handed to the Simulate service, or are a governance execution [parameter update, failing message] that x/gov drops as a whole; nothing of either may stick)", "F-export (every fifth run: export and restart from the exported genesis after ~8% of the blocks)"},
	})
}

func distMonitors(prop string, predictive bool) []kernel.Monitor {
	dm := &distMonitor{Predictive: predictive}
	switch prop {
	case "C03":
		dm.CheckC03 = true
	case "C04":
		dm.CheckC04 = true
	case "C18":
		dm.CheckC18 = true
	}
	return []kernel.Monitor{dm, haltMonitor{}}
}

// permutedDistGenesis: the metamorphic twin of a configuration: sources of every sub-distributor in reverse order
// and every INTERNAL id replaced by a fresh unique one. By C04 the outcome must not depend on either.
func permutedDistGenesis(raw jsonRaw) (jsonRaw, bool) {
	var gs disttypes.GenesisState
	if err := kernel.Enc().Marshaler.UnmarshalJSON(raw, &gs); err != nil || len(gs.States) > 0 {
		return nil, false
	}
	rename := map[string]string{}
	n := 0
	ren := func(a *disttypes.Account) {
		if a.Type != disttypes.InternalAccount {
			return
		}
		if _, ok := rename[a.Id]; !ok {
			n++
			rename[a.Id] = fmt.Sprintf("twin-internal-%d", n)
		}
		a.Id = rename[a.Id]
	}
	for i := range gs.Params.SubDistributors {
		sd := &gs.Params.SubDistributors[i]
		for l, r := 0, len(sd.Sources)-1; l < r; l, r = l+1, r-1 {
			sd.Sources[l], sd.Sources[r] = sd.Sources[r], sd.Sources[l]
		}
		for _, s := range sd.Sources {
			ren(s)
		}
		ren(&sd.Destinations.PrimaryShare)
		for _, sh := range sd.Destinations.Shares {
			ren(&sh.Destination)
		}
	}
	if gs.Params.Validate() != nil {
		return nil, false
	}
	return kernel.Enc().Marshaler.MustMarshalJSON(&gs), true
}

// c04Twin executes the recorded blocks on the permuted configuration and compares every balance with the original run.
func c04Twin(o *Outcome, runA *kernel.Run) {
	if o.Trace == nil || len(o.Violations) > 0 || o.InfraErr != nil || runA == nil || runA.Chain.Halted != nil {
		return
	}
	twinCfg, ok := permutedDistGenesis(o.Trace.Spec.Distributor)
	if !ok {
		return
	}
	trB := &kernel.Trace{Spec: o.Trace.Spec, Blocks: o.Trace.Blocks}
	trB.Spec.Distributor = twinCfg
	runB, oB := execTrace(trB, nil, []kernel.Monitor{haltMonitor{}}, false)
	if oB.InfraErr != nil || len(oB.Violations) > 0 || runB.Chain.Halted != nil {
		o.Violations = append(o.Violations, oB.Violations...)
		return
	}
	o.Stats.Inc("probe.metamorphic_twin_compared")
	o.Evals++
	for addr, dd := range runA.Chain.AllBalances().Diff(runB.Chain.AllBalances()) {
		for denom, delta := range dd {
			o.Violations = append(o.Violations, &kernel.Violation{Property: "C04", Check: "order-and-id-independence", Signature: "outcome-depends-on-source-order-or-internal-ids",
				Message: fmt.Sprintf("with sources listed in reverse order and internal ids renamed, %s ends up with %s%s more", addr, delta, denom), Block: len(o.Trace.Blocks) - 1, TxIndex: -1})
			return
		}
	}
}

func distRunSeed(prop string, seed uint64, tier string) *Outcome {
	r := kernel.NewRng(seed)
	opts := distProfileOpts{Prop: prop, Blocks: [2]int{10, 40}, MaxAmtExp: 30, BlockedDests: prop == "C03", GenMinter: prop == "C18" && seed%4 == 0}
	spec, cfg, err := buildDistWorld(r.Fork(10), opts)
	if err != nil {
		return &Outcome{InfraErr: err}
	}
	tr := &kernel.Trace{Profile: prop, Seed: seed, Spec: *spec}
	src := distSource(r.Fork(11), spec, cfg, opts)
	if seed%5 == 2 {
		src.CrashP = 0.12
	}
	if seed%5 == 3 {
		simOverlay(src, spec)
	}
	if seed%5 == 4 {
		src.ExportP = 0.08
	}
	mons := distMonitors(prop, true)
	run, o := execTrace(tr, src, mons, false)
	if prop == "C04" {
		c04Twin(o, run)
	}
	finishDistOutcome(o, mons)
	return o
}

func distReplay(prop string, tr *kernel.Trace) *Outcome {
	mons := distMonitors(prop, true)
	run, o := execTrace(tr, nil, mons, false)
	if prop == "C04" {
		c04Twin(o, run)
	}
	finishDistOutcome(o, mons)
	return o
}

func finishDistOutcome(o *Outcome, mons []kernel.Monitor) {
	dm := mons[0].(*distMonitor)
	o.Evals = dm.evals
	o.Nontrivial = o.Stats.Counters["probe.dist_inflow_block"] > 0 && (o.Stats.Counters["probe.dist_payout"] > 0 || o.Stats.Counters["probe.dist_burn"] > 0)
	o.Fingerprint = fingerprint(dm.shape, statsClasses(&o.Stats, "probe."), len(o.Violations) > 0)
	if o.Trace != nil {
		o.Sample = map[string]interface{}{"seed": o.Trace.Seed, "config_shape": dm.shape, "blocks": len(o.Trace.Blocks), "txs_ok": o.Stats.Counters["tx.ok"], "txs_rejected": o.Stats.Counters["tx.rejected"]}
	}
}
