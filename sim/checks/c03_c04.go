package checks

import (
	"verifsim/kernel"
)

// C03 — distributor books always match the coins it holds.
// C04 — every destination receives exactly its configured share (against M-dist).

var distReal = []string{"app.App over ABCI (BeginBlock, DeliverTx with ante handlers and signature verification, EndBlock, Commit)", "x/cfedistributor", "x/cfeminter", "x/bank, x/auth, x/staking, x/distribution", "IAVL/rootmulti stores on the simulated disk"}
var distStub = []string{"Tendermint consensus, p2p, mempool (the simulator is proposer and mempool)"}

func init() {
	Register(&Prop{
		ID:    "C03",
		Level: "exploration",
		Rule: "one run = one sub-distributor configuration drawn from the biased generator and accepted by Params.Validate() (1-6 sub-distributors, multi-source in any order, " +
			"shares to MAIN, INTERNAL ids reused across types, 1-3 denominations), driven for 10-40 blocks with minted, fee and bank-send inflows; books checked after every BeginBlock. " +
			"non-trivial = at least one block had inflow and a payout or burn happened; distinct = hash of the configuration shape (account types per source/destination), probes and outcome",
		Quick:      Tier{Runs: 700, BudgetSec: 50},
		Thorough:   Tier{Runs: 40000, BudgetSec: 780},
		RunSeed:    func(seed uint64, tier string) *Outcome { return distRunSeed("C03", seed, tier) },
		Replay:     func(tr *kernel.Trace) *Outcome { return distReplay("C03", tr) },
		Real:       distReal,
		Stub:       distStub,
		Assumes:    []string{"generator never names staking pools, distribution, cfeminter or cfevesting accounts as sources", "amounts <= 1e30"},
		FaultKinds: []string{"F-clock", "F-order (fee-paying bank traffic between blocks)"},
	})
	Register(&Prop{
		ID:    "C04",
		Level: "exploration",
		Rule: "same configurations and traffic as C03; the exact-rational reference model M-dist (accounts keyed by (type,id), sources as a set, external inflows observed) runs next to the chain; " +
			"after every block each final destination and the burn must be owed in [0,1) base units. non-trivial = inflow and at least one payout; distinct = hash of configuration shape, probes and outcome",
		Quick:      Tier{Runs: 700, BudgetSec: 50},
		Thorough:   Tier{Runs: 40000, BudgetSec: 780},
		RunSeed:    func(seed uint64, tier string) *Outcome { return distRunSeed("C04", seed, tier) },
		Replay:     func(tr *kernel.Trace) *Outcome { return distReplay("C04", tr) },
		Real:       distReal,
		Stub:       distStub,
		Assumes:    []string{"tolerance 1e-6 base units absorbs the chain's 18-digit truncation of shares over a run", "payouts are attributed by bank transfer events whose sender is the distributor's main account"},
		FaultKinds: []string{"F-clock", "F-order (fee-paying bank traffic between blocks)"},
	})
}

func distMonitors(prop string, predictive bool) []kernel.Monitor {
	dm := &distMonitor{Predictive: predictive}
	switch prop {
	case "C03":
		dm.CheckC03 = true
	case "C04":
		dm.CheckC04 = true
	case "C18":
		dm.CheckC18 = true
	}
	return []kernel.Monitor{dm, haltMonitor{}}
}

func distRunSeed(prop string, seed uint64, tier string) *Outcome {
	r := kernel.NewRng(seed)
	opts := distProfileOpts{Prop: prop, Blocks: [2]int{10, 40}, MaxAmtExp: 30}
	spec, cfg, err := buildDistWorld(r.Fork(10), opts)
	if err != nil {
		return &Outcome{InfraErr: err}
	}
	tr := &kernel.Trace{Profile: prop, Seed: seed, Spec: *spec}
	src := distSource(r.Fork(11), spec, cfg, opts)
	mons := distMonitors(prop, true)
	_, o := execTrace(tr, src, mons, false)
	finishDistOutcome(o, mons)
	return o
}

func distReplay(prop string, tr *kernel.Trace) *Outcome {
	mons := distMonitors(prop, true)
	_, o := execTrace(tr, nil, mons, false)
	finishDistOutcome(o, mons)
	return o
}

func finishDistOutcome(o *Outcome, mons []kernel.Monitor) {
	dm := mons[0].(*distMonitor)
	o.Evals = dm.evals
	o.Nontrivial = o.Stats.Counters["probe.dist_inflow_block"] > 0 && (o.Stats.Counters["probe.dist_payout"] > 0 || o.Stats.Counters["probe.dist_burn"] > 0)
	o.Fingerprint = fingerprint(dm.shape, statsClasses(&o.Stats, "probe."), len(o.Violations) > 0)
	if o.Trace != nil {
		o.Sample = map[string]interface{}{"seed": o.Trace.Seed, "config_shape": dm.shape, "blocks": len(o.Trace.Blocks), "txs_ok": o.Stats.Counters["tx.ok"], "txs_rejected": o.Stats.Counters["tx.rejected"]}
	}
}
