package checks

import (
	"fmt"
	v120 "github.com/chain4energy/c4e-chain/app/upgrades/v120"
	vtypes "github.com/chain4energy/c4e-chain/x/cfevesting/types"
	"verifsim/kernel"
)

// The vesting-focused profile shared by C05, C06, C08, C09, C17 and the withdrawal half of C18: several owners,
// several vesting types, all vesting messages in valid-biased and boundary mode through both delivery routes,
// boundary-targeted passage of time; benign distributor.

var vestReal = []string{"app.App over ABCI (BeginBlock, DeliverTx with ante handlers and signature verification, EndBlock, Commit)", "x/cfevesting (keeper, msg server, queries)", "x/auth, x/auth/vesting, x/bank, x/staking", "message-service router (direct route used by gov/authz/group)", "IAVL/rootmulti stores on the simulated disk"}
var vestStub = []string{"Tendermint consensus, p2p, mempool (the simulator is proposer and mempool)"}

type vestProfile struct {
	Prop    string
	Weights map[string]int
	Blocks  [2]int
	MaxTxs  int
}

func vestMonitors(prop string) (*vestingMonitor, []kernel.Monitor) {
	vm := &vestingMonitor{}
	switch prop {
	case "C05":
		vm.C05 = true
	case "C06":
		vm.C06 = true
	case "C08":
		vm.C08 = true
	case "C09":
		vm.C09 = true
	case "C17":
		vm.C17 = true
	case "C18":
		vm.C18 = true
	}
	return vm, []kernel.Monitor{vm, haltMonitor{}}
}

var vestProfiles = map[string]vestProfile{
	"C05": {Prop: "C05", Blocks: [2]int{10, 30}, MaxTxs: 5},
	"C06": {Prop: "C06", Blocks: [2]int{12, 35}, MaxTxs: 5, Weights: map[string]int{"createPool": 3, "withdraw": 4, "send": 2, "createVestingAccount": 0, "split": 0, "move": 0, "delegate": 0}},
	"C08": {Prop: "C08", Blocks: [2]int{10, 30}, MaxTxs: 5, Weights: map[string]int{"createPool": 2, "send": 4, "createVestingAccount": 3, "withdraw": 1, "split": 0, "move": 0, "delegate": 0}},
	"C09": {Prop: "C09", Blocks: [2]int{10, 30}, MaxTxs: 5, Weights: map[string]int{"createPool": 1, "send": 3, "createVestingAccount": 3, "split": 3, "move": 2, "withdraw": 1, "delegate": 1, "sigCreateAccount": 3}},
	"C17": {Prop: "C17", Blocks: [2]int{12, 35}, MaxTxs: 5, Weights: map[string]int{"createPool": 2, "send": 3, "split": 4, "move": 3, "delegate": 2, "withdraw": 1, "createVestingAccount": 1}},
	"C18": {Prop: "C18", Blocks: [2]int{12, 35}, MaxTxs: 5, Weights: map[string]int{"createPool": 4, "withdraw": 4, "send": 2, "createVestingAccount": 0, "split": 0, "move": 0, "delegate": 0}},
}

func vestRunSeed(prop string, seed uint64, tier string) *Outcome {
	pf := vestProfiles[prop]
	r := kernel.NewRng(seed)
	// every twentieth C05 run: an operator who skips the genesis invariant assertion imports a genesis file that may list
	// one owner in two spellings
	lenient := prop == "C05" && seed%20 == 7
	spec, w := buildVestingWorld(r.Fork(20), vestingWorldOpts{MaxAmtExp: 24, GenesisPools: true, GenesisVAccs: true, MultiDenomAcc: true, TwoSpellings: lenient})
	spec.Distributor = simpleDistributorJSON(kernel.ActorBech("dist-sink"))
	// some base accounts exist without a public key (funded, never signed)
	spec.NoPubKey = append(spec.NoPubKey, spec.Clients[len(spec.Clients)-1])
	if r.Bool() {
		spec.NoPubKey = append(spec.NoPubKey, spec.Clients[len(spec.Clients)-2])
	}
	tr := &kernel.Trace{Profile: prop, Seed: seed, Spec: *spec}
	if lenient {
		tr.Node = kernel.NodeOpts{SkipGenesisInvariants: true}
		if o := rejectedGenesis(tr); o != nil {
			return o
		}
	}
	rr := r.Fork(21)
	src := &genSource{rng: rr, nBlocks: rr.Range(pf.Blocks[0], pf.Blocks[1]), Cadence: w.cadence, MaxTxs: pf.MaxTxs, PTx: 0.85, TxGens: w.txGens(pf.Weights)}
	if seed%5 == 2 {
		src.CrashP = 0.15
	}
	if seed%5 == 3 {
		simOverlay(src, spec)
	}
	if seed%5 == 4 {
		src.ExportP = 0.08
	}
	vm, mons := vestMonitors(prop)
	_, o := execTrace(tr, src, mons, false)
	finishVestOutcome(o, vm)
	return o
}

// rejectedGenesis: the operator of a lenient node (genesis invariant assertion skipped) did run validate-genesis; a file
// that the module's own validation rejects is not an input, and the run gives no verdict.
func rejectedGenesis(tr *kernel.Trace) *Outcome {
	var vg vtypes.GenesisState
	if err := kernel.Enc().Marshaler.UnmarshalJSON(tr.Spec.Vesting, &vg); err != nil {
		return nil
	}
	if err := vg.Validate(); err == nil {
		return nil
	}
	o := &Outcome{Trace: tr}
	o.Stats.Inc("probe.generated_genesis_rejected_by_validation")
	o.Fingerprint = fingerprint("genesis-rejected")
	return o
}

func vestReplay(prop string, tr *kernel.Trace) *Outcome {
	if tr.Node.SkipGenesisInvariants {
		if o := rejectedGenesis(tr); o != nil {
			return o
		}
	}
	vm, mons := vestMonitors(prop)
	_, o := execTrace(tr, nil, mons, false)
	finishVestOutcome(o, vm)
	return o
}

func finishVestOutcome(o *Outcome, vm *vestingMonitor) {
	o.Evals = vm.evals
	o.Nontrivial = o.Stats.Counters["tx.ok"] > 0 && o.Stats.Counters["tx.rejected"] > 0
	kinds := ""
	if o.Trace != nil {
		seen := map[string]bool{}
		for _, b := range o.Trace.Blocks {
			for _, t := range b.Txs {
				for _, m := range t.Msgs {
					s := string(m)
					if i := indexOf(s, "@type"); i >= 0 {
						e := s[i:]
						if j := indexOf(e, ","); j > 0 {
							e = e[:j]
						}
						seen[e+t.Route] = true
					}
				}
			}
		}
		for _, k := range kernel.SortedKeys(seen) {
			kinds += k + ";"
		}
	}
	o.Fingerprint = fingerprint(kinds, statsClasses(&o.Stats, "probe.", "tx."), len(o.Violations) > 0)
	if o.Trace != nil {
		o.Sample = map[string]interface{}{"seed": o.Trace.Seed, "blocks": len(o.Trace.Blocks), "txs_ok": o.Stats.Counters["tx.ok"], "txs_rejected": o.Stats.Counters["tx.rejected"], "direct_route": o.Stats.Counters["tx.direct"]}
		if len(o.Trace.Blocks) > 0 {
			for _, b := range o.Trace.Blocks {
				if len(b.Txs) > 0 {
					o.Sample.(map[string]interface{})["first_tx"] = b.Txs[0]
					break
				}
			}
		}
	}
}

func indexOf(s, sub string) int {
	for i := 0; i+len(sub) <= len(s); i++ {
		if s[i:i+len(sub)] == sub {
			return i
		}
	}
	return -1
}

func init() {
	reg := func(id, rule string, faultKinds []string, assumes []string) {
		Register(&Prop{
			ID: id, Level: "exploration", Rule: rule,
			Quick:    Tier{Runs: 1500, BudgetSec: 50},
			Thorough: Tier{Runs: 30000, BudgetSec: 780},
			RunSeed: func(seed uint64, tier string) *Outcome {
				if id == "C17" && seed%10 == 9 {
					// lineage across the v1.2.0 upgrade (the pre-upgrade layout has no lineage flags; the handler sets them)
					tr := c16Trace(seed)
					var x c16Extra
					_ = jsonUnmarshal(tr.Extra, &x)
					x.C17Upgrade = true
					tr.Extra = mustJSON(x)
					tr.Profile = "C17"
					return c17UpgradeExec(tr)
				}
				if id == "C05" && seed%10 == 9 {
					// solvency and pool bounds across the v1.2.0 upgrade (it rewrites and splits pools)
					tr := c16Trace(seed)
					var x c16Extra
					_ = jsonUnmarshal(tr.Extra, &x)
					x.C05Upgrade = true
					tr.Extra = mustJSON(x)
					tr.Profile = "C05"
					return c05UpgradeExec(tr)
				}
				return vestRunSeed(id, seed, tier)
			},
			Replay: func(tr *kernel.Trace) *Outcome {
				var x c16Extra
				if id == "C17" && len(tr.Extra) > 0 && jsonUnmarshal(tr.Extra, &x) == nil && x.C17Upgrade {
					return c17UpgradeExec(tr)
				}
				if id == "C05" && len(tr.Extra) > 0 && jsonUnmarshal(tr.Extra, &x) == nil && x.C05Upgrade {
					return c05UpgradeExec(tr)
				}
				return vestReplay(id, tr)
			},
			Real: vestReal, Stub: vestStub, Assumes: assumes, FaultKinds: faultKinds,
		})
	}
	// F-upgrade applies to C05 and C17 only (their upgrade sub-profiles)
	fk := []string{"F-clock (exact lock-end / vesting boundary hits, 1 ns around, long jumps)", "F-order (interleaved valid and rejected messages, both delivery routes)", "F-malformed (boundary amounts: 0, exact remainder, remainder+1, balance+1; duplicate names; unknown types; existing/blocked recipients)",
		"F-crash (every fifth run: the node dies before Commit or at the k-th write of the commit batch in ~15% of the blocks, restarts over the surviving disk and re-executes the block; all oracles continue on the recovered node)",
		"F-simulate + F-rollback (every fifth run: a quarter of the transactions are only handed to the Simulate service, or are a governance execution [parameter update, failing message] that x/gov drops as a whole; nothing of either may stick)",
		"F-export (every fifth run: after ~8% of the blocks the genesis is exported and a fresh node is initialised from it; the oracles continue, vesting types are judged by what was configured at genesis)"}
	reg("C05", "one run = a generated world (4-8 clients, 1-4 vesting types, optional genesis pools and genesis vesting accounts) driven for 10-30 blocks with up to 5 vesting messages per block; "+
		"after every message and every BeginBlock: module balance == sum of pool remainders, pool bounds, legality of every pool change (M-vest), and byte-identical vesting store/balances/accounts after a rejected message; governance now and then tries to change the vesting denomination (refused while pools exist); "+
		"every tenth run is the upgrade sub-profile: a generated pre-upgrade store in the v1.1.0 layout, the real v1.2.0 handler run by x/upgrade, solvency and pool bounds of every pool afterwards. "+
		"non-trivial = the run has both accepted and rejected messages; distinct = hash of message kinds x routes, probes and outcome", append(append([]string{}, fk...), "F-upgrade (every tenth run: real v1.2.0 handler over a rewritten pre-upgrade store, with F-crash in the preparing and the upgrading block)"), []string{"fees are zero in this profile; rejected signed transactions may still bump the signer's sequence (ante handler)"})
	reg("C06", "same world; create-pool/withdraw/send heavy workload with block times targeted exactly at, 1 ns before and after lock ends; per explicit withdrawal: every matured pool emptied, owner paid exactly the matured remainders, "+
		"repeated withdrawal pays 0, pool query evaluated on the same block's context agrees per pool. non-trivial = accepted and rejected messages present; distinct = hash of message kinds x routes, probes, outcome", fk, nil)
	reg("C08", "same world; send/create-vesting-account heavy workload; per accepted send: recipient new, continuous vesting account, holds exactly the amount, original vesting = floor(amount*(1-free)) in exact rationals, schedule per restart flag, sent counter +amount; "+
		"per accepted direct creation: exact coins, original vesting = coins, given times. distinct = hash of message kinds x routes, probes, outcome", fk, []string{"send without restart after the pool's lock end: start = max(lock end, block time) is accepted (the account is fully vested either way)"})
	reg("C09", "same world plus cfesignature account creation through the module's message server; byte snapshot of every x/auth account before each custom message; afterwards each pre-existing account is identical except the tx signer's sequence/first-use public key and the reduction of the sender's own original vesting by a split/move it sent. "+
		"distinct = hash of message kinds x routes, probes, outcome", fk, nil)
	reg("C17", "same world; send/split/move/delegate heavy workload building chains; trace list must equal the lineage model after every message; both summary queries equal sums recomputed from bank LockedCoins, account vesting coins and pool records; every tenth run is the upgrade sub-profile (pre-upgrade store in the v1.1.0 layout, real v1.2.0 handler): the handler's own lineage-flagging step, run once more on the upgraded store in a throw-away context, may not change any trace. "+
		"distinct = hash of message kinds x routes, probes (lineage depth >= 2, delegated vesting present), outcome", append(append([]string{}, fk...), "F-upgrade (every tenth run: real v1.2.0 handler over a rewritten pre-upgrade store)"), nil)
}

// c17UpgradeExec runs the upgrade world of C16 and keeps the lineage verdicts only.
func c17UpgradeExec(tr *kernel.Trace) *Outcome {
	o := c16Replay(tr)
	var keep []*kernel.Violation
	for _, v := range o.Violations {
		if v.Property == "C17" {
			keep = append(keep, v)
		}
	}
	o.Violations = keep
	// pool-order twin: which pools become genesis pools (and everything else about the owner's pools) may not depend on
	// the order in which the owner's pools happen to be stored
	if len(keep) == 0 && o.InfraErr == nil && o.Aux != nil {
		if twin := reversedPoolOrder(tr); twin != nil {
			o2 := c16Replay(twin)
			if o2.InfraErr == nil && o2.Aux != nil {
				o.Evals++
				o.Stats.Inc("probe.pool_order_twin_compared")
				for _, k := range kernel.SortedKeys(o.Aux) {
					if o2.Aux[k] != o.Aux[k] {
						o.Violations = append(o.Violations, &kernel.Violation{Property: "C17", Check: "lineage-after-upgrade", Signature: "pool-flags-depend-on-pool-order", Block: 1, TxIndex: -1,
							Message: fmt.Sprintf("after the upgrade pool %q of the hard-coded owner is {%s}; with the owner's pools stored in the reverse order it is {%s}", k, o.Aux[k], o2.Aux[k])})
						break
					}
				}
			}
		}
	}
	o.Stats.Inc("probe.lineage_checked_across_upgrade")
	return o
}

// c05UpgradeExec runs the upgrade world of C16 and keeps the solvency and pool-bound verdicts only.
func c05UpgradeExec(tr *kernel.Trace) *Outcome {
	o := c16Replay(tr)
	var keep []*kernel.Violation
	for _, v := range o.Violations {
		if v.Check == "solvency" {
			v.Property = "C05"
			keep = append(keep, v)
		}
	}
	o.Violations = keep
	o.Stats.Inc("probe.solvency_checked_across_upgrade")
	return o
}

// reversedPoolOrder: the same trace with the pools of the upgrade's hard-coded owner listed in the reverse order in the
// genesis (nil when the owner has fewer than two pools).
func reversedPoolOrder(tr *kernel.Trace) *kernel.Trace {
	var vg vtypes.GenesisState
	if err := kernel.Enc().Marshaler.UnmarshalJSON(tr.Spec.Vesting, &vg); err != nil {
		return nil
	}
	done := false
	for _, avp := range vg.AccountVestingPools {
		if avp.Owner == v120.ValidatorsVestingPoolOwner && len(avp.VestingPools) > 1 {
			for i, j := 0, len(avp.VestingPools)-1; i < j; i, j = i+1, j-1 {
				avp.VestingPools[i], avp.VestingPools[j] = avp.VestingPools[j], avp.VestingPools[i]
			}
			done = true
		}
	}
	if !done {
		return nil
	}
	twin := tr.Clone()
	twin.Spec.Vesting = kernel.Enc().Marshaler.MustMarshalJSON(&vg)
	return twin
}
