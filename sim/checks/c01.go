package checks

import (
	"strings"

	mintertypes "github.com/chain4energy/c4e-chain/x/cfeminter/types"
	sigtypes "github.com/chain4energy/c4e-chain/x/cfesignature/types"
	vtypes "github.com/chain4energy/c4e-chain/x/cfevesting/types"
	sdk "github.com/cosmos/cosmos-sdk/types"
	authtypes "github.com/cosmos/cosmos-sdk/x/auth/types"
	abci "github.com/tendermint/tendermint/abci/types"

	"verifsim/kernel"
	"verifsim/models"
)

// C01 — supply changes only by scheduled mint minus configured burn.

func init() {
	Register(&Prop{
		ID:    "C01",
		Level: "exploration",
		Rule: "one run = the everything profile (generated minter and sub-distributor configurations, 1-3 denominations, all vesting and signature messages in valid and rejected forms through every route, fee-paying bank sends, delegations; 20-60 blocks); " +
			"even seeds fault-free, odd seeds with natural bank failures (blocked destinations, vesting-locked base-account sources). After every BeginBlock, message and EndBlock: supply == sum of all balances; per block supply delta == coinbase events - burn events with the minter module the only minter and the distributor's main account the only burner; " +
			"cumulative minted inside M-mint's window; (fault-free) burned coins within one unit of M-dist's burn entitlement; per custom message the accounts whose balance changed are among signer, fee collector, vesting module account and the addresses named in the message, the changes add up to zero, and a rejected message moves nothing but the signer's fee. " +
			"non-trivial = the run minted, burned and executed accepted and rejected custom messages; distinct = hash of message kinds x routes, configuration shape, probes and outcome",
		Quick:      Tier{Runs: 900, BudgetSec: 55},
		Thorough:   Tier{Runs: 20000, BudgetSec: 780},
		RunSeed:    c01RunSeed,
		Replay:     c01Replay,
		Real:       distReal,
		Stub:       distStub,
		Assumes:    []string{"no governance traffic and no slashing in this profile (x/gov burns deposits of proposals that miss the quorum; that is SDK behaviour outside the statement)", "amounts <= 1e30"},
		FaultKinds: []string{"F-clock", "F-order", "F-malformed", "F-bank-nat (odd seeds)", "F-crash (every fifth run)", "F-simulate + F-rollback (every fifth run: a quarter of the transactions are only handed to the Simulate service, or are a governance execution [parameter update, failing message] that x/gov drops as a whole; nothing of either may stick)"},
	})
}

type c01Extra struct {
	NatFaults bool `json:"nat_faults"`
}

func c01RunSeed(seed uint64, tier string) *Outcome {
	nat := seed%2 == 1
	tr, src, _, err := buildEverything(seed, "C01", everythingOpts{MaxAmtExp: 30, Sig: true, NatFaults: nat, Adversarial: true, Crash: seed%5 == 2, Sim: seed%5 == 3, Blocks: [2]int{20, 60}})
	if err != nil {
		return &Outcome{InfraErr: err}
	}
	tr.Extra = mustJSON(c01Extra{NatFaults: nat})
	return c01Exec(tr, src)
}

func c01Replay(tr *kernel.Trace) *Outcome { return c01Exec(tr, nil) }

// mintBurnMonitor: oracles (b), (c) and (e).
type mintBurnMonitor struct {
	kernel.NopMonitor
	evals      int64
	supply0    sdk.Coins
	blockStart sdk.Coins
	evMint     sdk.Coins
	evBurn     sdk.Coins
	minterAddr string
	mainAddr   string
	model      *models.MintModel
	mintDenom  string
	cumMinted  sdk.Int
	preBal     kernel.Balances
	params0    []byte
}

func (m *mintBurnMonitor) Init(r *kernel.Run) {
	m.minterAddr = kernel.ModuleAddr(mintertypes.ModuleName).String()
	m.mainAddr = kernel.DistMainAddr().String()
	m.supply0 = r.Chain.Supply()
	m.cumMinted = sdk.ZeroInt()
	p := r.Chain.MinterParams()
	m.mintDenom = p.MintDenom
	if mm, err := MintModelFrom(p); err == nil {
		m.model = mm
	}
	m.params0 = kernel.Enc().Marshaler.MustMarshal(&p)
}

func (m *mintBurnMonitor) BeforeBlock(r *kernel.Run, b *kernel.Block) {
	m.blockStart = r.Chain.Supply()
	m.evMint, m.evBurn = sdk.NewCoins(), sdk.NewCoins()
}

func (m *mintBurnMonitor) absorb(r *kernel.Run, evs []abci.Event, where string) {
	_, burns, mints := parseTransfers(evs)
	for _, mt := range mints {
		m.evMint = m.evMint.Add(mt.coins...)
		if mt.from != m.minterAddr {
			r.Violate("C01", "only-minter-mints", "foreign-minter", "%s: coins %s minted by %s, which is not the minter module", where, mt.coins, mt.from)
		} else {
			m.cumMinted = m.cumMinted.Add(mt.coins.AmountOf(m.mintDenom))
		}
	}
	for _, b := range burns {
		m.evBurn = m.evBurn.Add(b.coins...)
		if b.from != m.mainAddr {
			r.Violate("C01", "only-distributor-burns", "foreign-burner", "%s: coins %s burned by %s, which is not the distributor's main account", where, b.coins, b.from)
		}
	}
}

func (m *mintBurnMonitor) AfterBegin(r *kernel.Run, resp abci.ResponseBeginBlock) {
	if r.Chain.Halted != nil {
		return
	}
	m.absorb(r, resp.Events, "BeginBlock")
	if len(m.evBurn) > 0 {
		r.Stats.Inc("probe.block_burned")
	}
	if len(m.evMint) > 0 {
		r.Stats.Inc("probe.block_minted")
	}
	// (c) cumulative minted follows the schedule (as long as the schedule is the one the run started with)
	if m.model != nil {
		cur := r.Chain.MinterParams()
		if !bytesEqual(kernel.Enc().Marshaler.MustMarshal(&cur), m.params0) {
			m.model = nil
			r.Stats.Inc("probe.minter_params_changed_schedule_check_off")
		}
	}
	if m.model != nil {
		m.evals++
		e, steps := m.model.Cumulative(r.Chain.Now)
		lo, hi := models.Window(e, steps, len(m.model.Periods))
		if m.cumMinted.BigInt().Cmp(lo) < 0 || m.cumMinted.BigInt().Cmp(hi) > 0 {
			r.Violate("C01", "mint-follows-schedule", "minted-outside-schedule", "at %s the minter has minted %s in total, the schedule's cumulative emission is %s", r.Chain.Now, m.cumMinted, e.FloatString(6))
		}
	}
}

func (m *mintBurnMonitor) BeforeTx(r *kernel.Run, tx *kernel.Tx, msgs []sdk.Msg) {
	m.preBal = r.Chain.AllBalances()
}

func addrFields(msg sdk.Msg) []string {
	switch t := msg.(type) {
	case *vtypes.MsgCreateVestingPool:
		return []string{t.Owner}
	case *vtypes.MsgSendToVestingAccount:
		return []string{t.Owner, t.ToAddress}
	case *vtypes.MsgWithdrawAllAvailable:
		return []string{t.Owner}
	case *vtypes.MsgCreateVestingAccount:
		return []string{t.FromAddress, t.ToAddress}
	case *vtypes.MsgSplitVesting:
		return []string{t.FromAddress, t.ToAddress}
	case *vtypes.MsgMoveAvailableVesting:
		return []string{t.FromAddress, t.ToAddress}
	case *vtypes.MsgMoveAvailableVestingByDenoms:
		return []string{t.FromAddress, t.ToAddress}
	case *sigtypes.MsgCreateAccount:
		return []string{t.Creator, t.AccAddressString}
	case *sigtypes.MsgStoreSignature:
		return []string{t.Creator}
	case *sigtypes.MsgPublishReferencePayloadLink:
		return []string{t.Creator}
	}
	return nil
}

func (m *mintBurnMonitor) AfterTx(r *kernel.Run, tx *kernel.Tx, msgs []sdk.Msg, res *kernel.TxResult) {
	m.absorb(r, res.Events, "message")
	if len(msgs) != 1 || !isCustomMsg(msgs[0]) || m.preBal == nil {
		return
	}
	url := sdk.MsgTypeURL(msgs[0])
	if strings.Contains(url, ".MsgUpdate") {
		return
	}
	m.evals++
	post := r.Chain.AllBalances()
	d := m.preBal.Diff(post)
	if !res.OK {
		if ok, what := balancesEqualExceptFee(m.preBal, post, tx); !ok {
			r.Violate("C01", "messages-only-move", "rejected-message-moved-coins:"+url, "rejected %s moved coins: %s", url, what)
		}
		return
	}
	allowed := map[string]bool{signerAddr(tx): true, kernel.ModuleAddr(authtypes.FeeCollectorName).String(): true, kernel.ModuleAddr(vtypes.ModuleName).String(): true}
	for _, a := range addrFields(msgs[0]) {
		allowed[a] = true
	}
	sum := map[string]sdk.Int{}
	for addr, dd := range d {
		for denom, delta := range dd {
			if !allowed[addr] {
				r.Violate("C01", "messages-only-move", "unrelated-account-changed:"+url, "%s changed the balance of %s by %s%s, which is neither sender, recipient, fee collector nor the vesting module account", url, addr, delta, denom)
			}
			if _, ok := sum[denom]; !ok {
				sum[denom] = sdk.ZeroInt()
			}
			sum[denom] = sum[denom].Add(delta)
		}
	}
	for denom, s := range sum {
		if !s.IsZero() {
			r.Violate("C01", "messages-only-move", "message-created-or-destroyed-coins:"+url, "%s changed the sum of all balances of %s by %s", url, denom, s)
		}
	}
}

func (m *mintBurnMonitor) AfterEnd(r *kernel.Run, resp abci.ResponseEndBlock) {
	if r.Chain.Halted != nil {
		return
	}
	m.absorb(r, resp.Events, "EndBlock")
	// (b) the block's supply delta is exactly what the events say
	m.evals++
	now := r.Chain.Supply()
	want := m.blockStart.Add(m.evMint...)
	w2, neg := want.SafeSub(m.evBurn...)
	if neg || !coinsEq(now, w2) {
		r.Violate("C01", "supply-delta", "supply-delta-differs-from-mint-minus-burn", "supply went from %s to %s in this block, minted %s and burned %s", m.blockStart, now, m.evMint, m.evBurn)
	}
}

func c01Exec(tr *kernel.Trace, src kernel.Source) *Outcome {
	var extra c01Extra
	_ = jsonUnmarshal(tr.Extra, &extra)
	sm := &supplyMonitor{Prop: "C01"}
	mb := &mintBurnMonitor{}
	dm := &distMonitor{Predictive: !extra.NatFaults, CheckC04: !extra.NatFaults}
	_, o := execTrace(tr, src, []kernel.Monitor{sm, mb, dm, haltMonitor{}}, false)
	// of the share model only the burn side belongs to this property
	var keep []*kernel.Violation
	for _, v := range o.Violations {
		if v.Property == "C04" {
			if strings.HasPrefix(v.Message, "burn is short") || strings.Contains(v.Message, "destination BURN received") {
				v.Property, v.Check, v.Signature = "C01", "burn-follows-configuration", "burned-differs-from-configured-share"
				keep = append(keep, v)
			}
			continue
		}
		keep = append(keep, v)
	}
	o.Violations = keep
	o.Evals = sm.evals + mb.evals + dm.evals
	c := o.Stats.Counters
	o.Nontrivial = c["probe.block_minted"] > 0 && c["probe.block_burned"] > 0 && c["tx.ok"] > 0 && c["tx.rejected"] > 0
	o.Fingerprint = fingerprint(traceKinds(tr), statsClasses(&o.Stats, "probe."), len(o.Violations) > 0)
	if o.Trace != nil {
		o.Sample = map[string]interface{}{"seed": tr.Seed, "blocks": len(tr.Blocks), "natural_faults": extra.NatFaults, "config_shape": dm.shape, "txs_ok": c["tx.ok"], "txs_rejected": c["tx.rejected"]}
	}
	return o
}
