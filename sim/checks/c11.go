package checks

import (
	"bytes"
	"fmt"
	"os"
	"os/exec"
	"strings"
	"sync"
	"time"

	"verifsim/kernel"
)

// C11 — replicas computing the same blocks reach the same state hash.
//
// Replica A is observed (monitors read the deliver state mid-block), replica B is silent and in-process, replica D
// suffers node crashes (before Commit and torn inside Commit at the k-th batch write) and re-executes, replica C is a
// child process replaying the recorded trace at another GOMAXPROCS. At every height: identical app hash, identical
// per-transaction code/codespace/gas/events and identical BeginBlock/EndBlock events.

func init() {
	Register(&Prop{
		ID:    "C11",
		Level: "fault_enumeration",
		Rule: "seeded part: one run = an everything-profile history (all message kinds, both routes, governance updates, signature registry) executed on replicas A (observed), B (silent), D (crashing at seeded points) and, for every 4th run, C (child process, other GOMAXPROCS); " +
			"enumeration part (thorough): for short base histories every crash point of every block (before Commit and at each of the batch writes of Commit) is taken once. " +
			"non-trivial = the history contains accepted custom messages and at least one crash fired on D; distinct = hash of message kinds x routes, configuration shape, crash points fired and outcome",
		Quick:      Tier{Runs: 450, BudgetSec: 55},
		Thorough:   Tier{Runs: 12000, BudgetSec: 700},
		RunSeed:    c11RunSeed,
		Replay:     c11Replay,
		Enumerate:  c11Enumerate,
		Real:       append([]string{"two to four independent app.App instances per run, restart over the surviving disk (app.New on the same DB)", "child process replica"}, distReal...),
		Stub:       distStub,
		Assumes:    []string{"Go's map iteration order cannot be seeded: a divergence caused by it may need several executions to show; the replay command re-executes the comparison up to 20 times", "transaction log strings are compared as information only (ABCI declares them non-deterministic)"},
		FaultKinds: []string{"F-replica", "F-replica: a node with other operator settings (--x-crisis-skip-assert-invariants, --inv-check-period 1)", "F-crash before Commit", "F-crash inside Commit at the k-th batch write", "F-order", "F-gov", "F-upgrade (every sixth run: two replicas execute the v1.2.0 upgrade handler over the same rewritten pre-upgrade store, one of them dying and recovering in the preparing or the upgrading block; app hashes compared after every block)"},
	})
}

var c11Opts = everythingOpts{MaxAmtExp: 30, Gov: true, Sig: true, Crash: true, Adversarial: true, Blocks: [2]int{8, 28}}

func c11RunSeed(seed uint64, tier string) *Outcome {
	if seed%6 == 5 {
		// upgrade sub-profile: the replicas run the v1.2.0 upgrade handler over the same pre-upgrade store
		tr := c16Trace(seed)
		var x c16Extra
		_ = jsonUnmarshal(tr.Extra, &x)
		x.C11Upgrade = true
		tr.Extra = mustJSON(x)
		tr.Profile = "C11"
		return c11UpgradeExec(tr)
	}
	tr, src, _, err := buildEverything(seed, "C11", c11Opts)
	if err != nil {
		return &Outcome{InfraErr: err}
	}
	if seed%3 == 1 {
		// a sparse but valid genesis: optional fields left out (they mean their zero values)
		tr.Spec.Minter = dropJSONKeys(tr.Spec.Minter, "last_mint_block_time", "state_history", "remainder_to_mint")
		tr.Spec.Vesting = dropJSONKeys(tr.Spec.Vesting, "vesting_account_trace_count_unused")
		tr.Spec.Distributor = dropJSONKeys(tr.Spec.Distributor, "states")
	}
	return c11Exec(tr, src, seed%4 == 0)
}

// c11Replay re-executes the comparison several times: map-order divergences are probabilistic.
func c11Replay(tr *kernel.Trace) *Outcome {
	var x c16Extra
	if len(tr.Extra) > 0 && jsonUnmarshal(tr.Extra, &x) == nil && x.C11Upgrade {
		var first *Outcome
		for i := 0; i < 12; i++ { // map-order divergences are probabilistic
			o := c11UpgradeExec(tr.Clone())
			if first == nil || o.InfraErr != nil || len(o.Violations) > 0 {
				first = o
			}
			if o.InfraErr != nil || len(o.Violations) > 0 {
				break
			}
		}
		return first
	}
	var last *Outcome
	div := 0
	n := 20
	if os.Getenv("VERIF_C11_REPLAY_ONCE") != "" {
		n = 1
	}
	for i := 0; i < n; i++ {
		o := c11Exec(tr.Clone(), nil, i == 0)
		if o.InfraErr != nil {
			return o
		}
		if len(o.Violations) > 0 {
			div++
			if last == nil || len(last.Violations) == 0 {
				last = o
			}
		} else if last == nil {
			last = o
		}
	}
	if div > 0 && last != nil && len(last.Violations) > 0 {
		last.Violations[0].Message += fmt.Sprintf(" [diverged in %d of %d executions]", div, n)
	}
	return last
}

func stripCrash(b kernel.Block) kernel.Block {
	c := b
	c.Crash = 0
	return c
}

func newReplica(spec kernel.WorldSpec) (*kernel.Run, *kernel.PanicInfo) {
	run := &kernel.Run{Spec: &spec, KeepLog: true}
	pi := run.Start()
	return run, pi
}

func c11Exec(tr *kernel.Trace, src kernel.Source, withChild bool) *Outcome {
	o := &Outcome{Trace: tr}
	gen := src != nil
	// replica A is observed by monitors that read mid-block state (any observer effect shows as divergence from B)
	vm := &vestingMonitor{C05: true}
	dm := &distMonitor{CheckC03: true}
	specA := tr.Spec
	runA := &kernel.Run{Spec: &specA, KeepLog: true, Monitors: []kernel.Monitor{vm, dm}}
	if pi := runA.Start(); pi != nil || runA.InfraErr != nil {
		if runA.InfraErr != nil {
			o.InfraErr = runA.InfraErr
		} else {
			o.InfraErr = errGenesis(pi)
		}
		return o
	}
	runB, piB := newReplica(tr.Spec)
	runD, piD := newReplica(tr.Spec)
	// replica E: a node whose operator chose other node-local settings (genesis invariant assertion skipped,
	// invariants asserted after every block instead of never)
	specE := tr.Spec
	runE := &kernel.Run{Spec: &specE, KeepLog: true, NodeOpts: kernel.NodeOpts{SkipGenesisInvariants: true, InvCheckPeriod: 1}}
	piE := runE.Start()
	if piB != nil || piD != nil || piE != nil {
		o.InfraErr = fmt.Errorf("replica genesis failed")
		return o
	}
	violate := func(sig, format string, args ...interface{}) {
		o.Violations = append(o.Violations, &kernel.Violation{Property: "C11", Check: "replicas", Signature: sig, Message: fmt.Sprintf(format, args...), Block: runA.BlockIdx, TxIndex: -1})
	}
	markA, markB, markD, markE := 0, 0, 0, 0
	i := 0
	for {
		var b *kernel.Block
		if gen {
			b = src.NextBlock(runA)
		} else if i < len(tr.Blocks) {
			b = &tr.Blocks[i]
		}
		if b == nil || runA.Chain.Halted != nil {
			break
		}
		crash := b.Crash
		bb := stripCrash(*b)
		if gen {
			runA.ExecBlock(&bb, src)
		} else {
			runA.ExecBlock(&bb, nil)
		}
		rec := runA.Recorded[len(runA.Recorded)-1]
		rec.Crash = crash
		runA.Recorded[len(runA.Recorded)-1] = rec
		runA.BlockIdx++
		if runA.Chain.Halted != nil {
			break
		}
		plain := stripCrash(rec)
		runB.ExecBlock(&plain, nil)
		runB.BlockIdx++
		runD.ExecBlock(&rec, nil) // with the crash point
		runD.BlockIdx++
		inOtherZone(func() { runE.ExecBlock(&plain, nil) }) // its machine also lives in another time zone
		runE.BlockIdx++
		o.Evals += 3
		la := runA.Log[markA:]
		lb := runB.Log[markB:]
		ld := filterRecommit(runD.Log[markD:])
		le := runE.Log[markE:]
		markA, markB, markD, markE = len(runA.Log), len(runB.Log), len(runD.Log), len(runE.Log)
		if d := firstLogDiff(la, lb); d != "" {
			violate("replica-divergence:silent-vs-observed", "height %d: observed replica A and silent replica B disagree: %s", runA.Chain.Height, d)
			break
		}
		if d := firstLogDiff(la, ld); d != "" {
			sig := "replica-divergence:crash-recovery"
			if crash == 0 {
				sig = "replica-divergence:in-process"
			}
			violate(sig, "height %d: replica D (crash point %d) disagrees with replica A: %s", runA.Chain.Height, crash, d)
			break
		}
		if len(runD.Violations) > 0 {
			o.Violations = append(o.Violations, runD.Violations...)
			break
		}
		if d := firstLogDiff(la, le); d != "" {
			violate("replica-divergence:node-local-settings", "height %d: replica E (genesis invariant assertion skipped, invariants asserted every block) disagrees with replica A (assertion at genesis only): %s%s", runA.Chain.Height, d, storeDiffSummary(runA.Chain, runE.Chain))
			break
		}
		i++
	}
	if gen {
		tr.Blocks = runA.Recorded
	}
	o.Stats.Merge(&runA.Stats)
	for k, v := range runD.Stats.Counters {
		if strings.HasPrefix(k, "fault.") {
			o.Stats.Add(k, v)
		}
	}
	if runA.InfraErr != nil {
		o.InfraErr = runA.InfraErr
	}
	// replica C: a fresh process at another GOMAXPROCS replays the recorded trace
	if withChild && len(o.Violations) == 0 && o.InfraErr == nil && os.Getenv("VERIF_NO_CHILD") == "" {
		if out, err := childReplicaLog(tr); err != nil {
			o.InfraErr = fmt.Errorf("child replica: %v", err)
		} else {
			o.Stats.Inc("probe.child_process_replica_compared")
			o.Evals++
			if d := firstLogDiff(runA.Log, out); d != "" {
				violate("replica-divergence:child-process", "child process replica disagrees with replica A: %s", d)
			}
		}
	}
	o.Nontrivial = o.Stats.Counters["tx.ok"] > 0 && (o.Stats.Counters["fault.crash_in_commit"]+o.Stats.Counters["fault.crash_before_commit"]) > 0
	o.Fingerprint = fingerprint(traceKinds(tr), statsClasses(&o.Stats, "fault."), len(o.Violations) > 0)
	o.Sample = map[string]interface{}{"seed": tr.Seed, "blocks": len(tr.Blocks), "txs_ok": o.Stats.Counters["tx.ok"], "crashes_in_commit": o.Stats.Counters["fault.crash_in_commit"], "crashes_before_commit": o.Stats.Counters["fault.crash_before_commit"], "child_replica": withChild}
	return o
}

// filterRecommit maps the crash replica's "recommit" line onto the normal commit line format.
func filterRecommit(lines []string) []string {
	out := make([]string, 0, len(lines))
	for _, l := range lines {
		out = append(out, l)
	}
	return out
}

func firstLogDiff(a, b []string) string {
	n := len(a)
	if len(b) < n {
		n = len(b)
	}
	for i := 0; i < n; i++ {
		if normLog(a[i]) != normLog(b[i]) {
			return fmt.Sprintf("%q vs %q", a[i], b[i])
		}
	}
	if len(a) != len(b) {
		return fmt.Sprintf("%d vs %d log lines", len(a), len(b))
	}
	return ""
}

// normLog: "Hn recommit <hash>" (crash replica) and "Hn commit <hash> end_ev=.." carry the same hash.
func normLog(l string) string {
	f := strings.Fields(l)
	if len(f) >= 3 && (f[1] == "commit" || f[1] == "recommit") {
		return f[0] + " commit " + f[2]
	}
	return l
}

func childReplicaLog(tr *kernel.Trace) ([]string, error) {
	self, err := os.Executable()
	if err != nil {
		return nil, err
	}
	f, err := os.CreateTemp("", "verif-c11-*.json")
	if err != nil {
		return nil, err
	}
	defer os.Remove(f.Name())
	path := writeReplayNamed(f.Name(), tr)
	f.Close()
	cmd := exec.Command(self, "replica", path)
	cmd.Env = append(os.Environ(), "GOMAXPROCS=3")
	var stderr bytes.Buffer
	cmd.Stderr = &stderr
	out, err := cmd.Output()
	if err != nil {
		return nil, fmt.Errorf("%v: %s", err, stderr.String())
	}
	var lines []string
	for _, l := range strings.Split(string(out), "\n") {
		if strings.HasPrefix(l, "LOG ") {
			lines = append(lines, strings.TrimPrefix(l, "LOG "))
		}
	}
	return lines, nil
}

// cmdReplica: replay a trace on one plain replica and print its event log (child side of replica C).
func cmdReplica(args []string) int {
	if len(args) < 1 {
		return 2
	}
	tr, err := loadTrace(args[0])
	if err != nil {
		fmt.Fprintln(os.Stderr, err)
		return 2
	}
	run, pi := newReplica(tr.Spec)
	if pi != nil || run.InfraErr != nil {
		fmt.Fprintln(os.Stderr, "genesis failed")
		return 2
	}
	for i := range tr.Blocks {
		if run.Chain.Halted != nil {
			break
		}
		b := stripCrash(tr.Blocks[i])
		run.ExecBlock(&b, nil)
		run.BlockIdx++
	}
	for _, l := range run.Log {
		fmt.Println("LOG " + l)
	}
	return 0
}

// c11Enumerate: every crash point of every block of short histories.
func c11Enumerate(tier string, emit func(*Outcome)) {
	bases, blocks := 1, 3
	if tier == "thorough" {
		bases, blocks = 10, 6
	}
	for i := 0; i < bases; i++ {
		seed := RunSeedFor(batchSeed()+1111, "C11", i)
		opts := c11Opts
		opts.Crash = false
		tr, src, _, err := buildEverything(seed, "C11", opts)
		if err != nil {
			emit(&Outcome{InfraErr: err})
			return
		}
		src.nBlocks = blocks
		base := c11Exec(tr, src, false)
		if base.InfraErr != nil || len(base.Violations) > 0 {
			emit(base)
			return
		}
		for bi := 0; bi < len(tr.Blocks); bi++ {
			for k := -1; k <= 26; k++ {
				if k == 0 {
					continue
				}
				t2 := tr.Clone()
				t2.Blocks[bi].Crash = k
				o := c11Exec(t2, nil, false)
				o.Stats.Inc("probe.enumerated_crash_point")
				emit(o)
			}
		}
	}
}

// c11UpgradeExec: replica A executes the trace as recorded (it may die and recover in the preparing or the upgrading
// block), replica B executes the same blocks without dying; both start from the same genesis and the same rewritten
// pre-upgrade store. Their app hashes must agree after every block.
func c11UpgradeExec(tr *kernel.Trace) *Outcome {
	o := &Outcome{Trace: tr}
	quiet := tr.Clone()
	for i := range quiet.Blocks {
		quiet.Blocks[i].Crash = 0
	}
	a := c16Replay(tr.Clone())
	// replica B's machine is configured for another time zone (one with daylight saving time)
	var b *Outcome
	inOtherZone(func() { b = c16Replay(quiet) })
	for _, x := range []*Outcome{a, b} {
		if x.InfraErr != nil {
			o.InfraErr = x.InfraErr
			return o
		}
		o.Stats.Merge(&x.Stats)
	}
	o.Stats.Inc("probe.upgrade_block_compared_across_replicas")
	for _, x := range []*Outcome{a, b} {
		for _, v := range x.Violations {
			if strings.Contains(v.Message, "already saved to different hash") {
				o.Violations = append(o.Violations, &kernel.Violation{Property: "C11", Check: "replicas", Signature: "replica-divergence:crash-recovery-in-upgrade", Block: v.Block, TxIndex: -1,
					Message: "re-executing the block after a crash produced a different store: " + v.Message})
				return o
			}
		}
	}
	n := len(a.Hashes)
	if len(b.Hashes) < n {
		n = len(b.Hashes)
	}
	for i := 0; i < n; i++ {
		o.Evals++
		if a.Hashes[i] != b.Hashes[i] {
			o.Violations = append(o.Violations, &kernel.Violation{Property: "C11", Check: "replicas", Signature: "replica-divergence:upgrade", Block: i, TxIndex: -1,
				Message: fmt.Sprintf("after block %d (the upgrade runs in block 1) replica A has app hash %s, replica B %s", i, a.Hashes[i], b.Hashes[i])})
			break
		}
	}
	o.Nontrivial = n >= 2
	o.Fingerprint = fingerprint("upgrade", statsClasses(&o.Stats, "probe.", "fault."), len(o.Violations) > 0)
	o.Sample = map[string]interface{}{"seed": tr.Seed, "sub_profile": "upgrade", "blocks_compared": n}
	return o
}

// storeDiffSummary names the stores (and the first key in each) in which two nodes differ.
func storeDiffSummary(a, b *kernel.Chain) string {
	out := ""
	for _, name := range []string{"acc", "bank", "staking", "distribution", "slashing", "gov", "mint", "params", "upgrade", "feegrant", "authz", "capability",
		"cfeminter", "cfedistributor", "cfevesting", "cfesignature"} {
		da, db := a.StoreDump(name), b.StoreDump(name)
		keys := map[string]bool{}
		for k := range da {
			keys[k] = true
		}
		for k := range db {
			keys[k] = true
		}
		n, first := 0, ""
		for _, k := range kernel.SortedKeys(keys) {
			if string(da[k]) != string(db[k]) {
				if n == 0 {
					first = fmt.Sprintf("%x", k)
				}
				n++
			}
		}
		if n > 0 {
			out += fmt.Sprintf("; store %s: %d keys differ (first %s)", name, n, clip(first, 60))
		}
	}
	return out
}

var otherZoneOnce sync.Once
var otherZone *time.Location

// inOtherZone runs f with the process-wide local time zone switched to Pacific/Auckland (UTC+12/+13 with daylight
// saving time; a fixed UTC+13 when the zone database is missing): the zone a node runs in is an operator's choice and
// must not influence what it computes. Runs are sequential inside one worker process, so the switch is not observed by
// anything else.
func inOtherZone(f func()) {
	otherZoneOnce.Do(func() {
		if loc, err := time.LoadLocation("Pacific/Auckland"); err == nil {
			otherZone = loc
		} else {
			otherZone = time.FixedZone("UTC+13", 13*3600)
		}
	})
	saved := time.Local
	time.Local = otherZone
	defer func() { time.Local = saved }()
	f()
}
