package checks

import (
	"bytes"
	"fmt"
	"math/big"
	"sort"
	"strings"
	"time"

	sigtypes "github.com/chain4energy/c4e-chain/x/cfesignature/types"
	vtypes "github.com/chain4energy/c4e-chain/x/cfevesting/types"
	sdk "github.com/cosmos/cosmos-sdk/types"
	authtypes "github.com/cosmos/cosmos-sdk/x/auth/types"
	authvesting "github.com/cosmos/cosmos-sdk/x/auth/vesting/types"
	abci "github.com/tendermint/tendermint/abci/types"

	"verifsim/kernel"
)

// vestingMonitor observes every message of the custom modules against snapshots taken right before and right
// after it (deliver state), and evaluates the oracles of C05, C06, C08, C09, C17 and the withdrawal half of C18.
type vestingMonitor struct {
	kernel.NopMonitor
	C05, C06, C08, C09, C17, C18 bool
	pre                          *vSnap
	preQuery                     map[string]map[string]string // owner -> pool -> withdrawable reported by the query before the tx
	lineage                      map[string]vtypes.VestingAccountTrace
	lineageInit                  bool
	types0                       map[string]vtypes.VestingType // the vesting types as configured at genesis: no message can change them
	evals                        int64
	lastWithdrawOwner            string
	lastWithdrawBlock            int
}

type poolRec struct {
	Init, Sent, Wd sdk.Int
	LockEnd        time.Time
	Genesis        bool
	VType          string
}

type vSnap struct {
	pools  map[string]map[string]poolRec
	module sdk.Int
	bal    kernel.Balances
	accs   map[string][]byte
	traces map[string]vtypes.VestingAccountTrace
	traceN uint64
	vstore map[string][]byte
	denom  string
	now    time.Time
}

func takeVSnap(c *kernel.Chain, withStore bool) *vSnap {
	ctx := c.Ctx()
	s := &vSnap{pools: map[string]map[string]poolRec{}, traces: map[string]vtypes.VestingAccountTrace{}, now: c.Now}
	s.denom = c.VestingParams().Denom
	for _, avp := range c.App.CfevestingKeeper.GetAllAccountVestingPools(ctx) {
		m := map[string]poolRec{}
		for _, p := range avp.VestingPools {
			key := p.Name
			for k := 2; ; k++ { // the same name twice under one owner (the v1.2.0 split can produce that): keep both, in order
				if _, dup := m[key]; !dup {
					break
				}
				key = fmt.Sprintf("%s\x00#%d", p.Name, k)
			}
			m[key] = poolRec{Init: p.InitiallyLocked, Sent: p.Sent, Wd: p.Withdrawn, LockEnd: p.LockEnd, Genesis: p.GenesisPool, VType: p.VestingType}
		}
		s.pools[avp.Owner] = m
	}
	s.module = c.ModuleBalance(vtypes.ModuleName).AmountOf(s.denom)
	s.bal = c.AllBalances()
	s.accs = c.AccountsRaw()
	for _, t := range c.App.CfevestingKeeper.GetAllVestingAccountTrace(ctx) {
		s.traces[t.Address] = t
	}
	s.traceN = c.App.CfevestingKeeper.GetVestingAccountTraceCount(ctx)
	if withStore {
		s.vstore = c.StoreDump(vtypes.StoreKey)
	}
	return s
}

func (s *vSnap) lockedSum() sdk.Int {
	t := sdk.ZeroInt()
	for _, m := range s.pools {
		for _, p := range m {
			t = t.Add(p.Init.Sub(p.Sent).Sub(p.Wd))
		}
	}
	return t
}

func isCustomMsg(msg sdk.Msg) bool {
	u := sdk.MsgTypeURL(msg)
	return strings.HasPrefix(u, "/chain4energy.c4echain.")
}

func (m *vestingMonitor) Init(r *kernel.Run) {
	m.lineage = map[string]vtypes.VestingAccountTrace{}
	for _, t := range r.Chain.App.CfevestingKeeper.GetAllVestingAccountTrace(r.Chain.Ctx()) {
		// the model knows accounts, not spellings: a genesis file may write an address in upper case
		if a, err := sdk.AccAddressFromBech32(t.Address); err == nil {
			t.Address = a.String()
		}
		m.lineage[t.Address] = t
	}
	m.lineageInit = true
	m.types0 = map[string]vtypes.VestingType{}
	for _, vt := range r.Chain.App.CfevestingKeeper.GetAllVestingTypes(r.Chain.Ctx()).VestingTypes {
		if vt != nil {
			m.types0[vt.Name] = *vt
		}
	}
	m.checkState(r, takeVSnap(r.Chain, false), "after genesis")
}

func (m *vestingMonitor) AfterBegin(r *kernel.Run, _ abci.ResponseBeginBlock) {
	if r.Chain.Halted != nil {
		return
	}
	if m.C05 || m.C17 {
		m.checkState(r, takeVSnap(r.Chain, false), "after BeginBlock")
	}
}

// checkState: the state invariants of C05 (solvency, pool bounds) and C17 (summaries) on one snapshot.
func (m *vestingMonitor) checkState(r *kernel.Run, s *vSnap, where string) {
	if m.C05 {
		m.evals++
		if !s.module.Equal(s.lockedSum()) {
			r.Violate("C05", "solvency", "module-balance-vs-pools", "%s: vesting module account holds %s%s but pools lock %s", where, s.module, s.denom, s.lockedSum())
		}
		for _, o := range sortedOwners(s.pools) {
			for _, n := range sortedPools(s.pools[o]) {
				p := s.pools[o][n]
				if p.Wd.IsNegative() || p.Sent.IsNegative() || p.Wd.Add(p.Sent).GT(p.Init) {
					r.Violate("C05", "pool-bounds", "pool-bounds", "%s: pool %s/%s has initially_locked %s sent %s withdrawn %s", where, o, n, p.Init, p.Sent, p.Wd)
				}
			}
		}
	}
	if m.C17 {
		m.checkSummaries(r, s, where)
	}
}

func sortedOwners(m map[string]map[string]poolRec) []string {
	ks := make([]string, 0, len(m))
	for k := range m {
		ks = append(ks, k)
	}
	sort.Strings(ks)
	return ks
}
func sortedPools(m map[string]poolRec) []string {
	ks := make([]string, 0, len(m))
	for k := range m {
		ks = append(ks, k)
	}
	sort.Strings(ks)
	return ks
}

func (m *vestingMonitor) BeforeTx(r *kernel.Run, tx *kernel.Tx, msgs []sdk.Msg) {
	m.pre = takeVSnap(r.Chain, m.C05)
	m.preQuery = nil
	if m.C06 {
		// what the pool query reports in this block's context, for the owners addressed by the message
		m.preQuery = map[string]map[string]string{}
		for _, msg := range msgs {
			if w, ok := msg.(*vtypes.MsgWithdrawAllAvailable); ok {
				resp, err := r.Chain.App.CfevestingKeeper.VestingPools(sdk.WrapSDKContext(r.Chain.Ctx()), &vtypes.QueryVestingPoolsRequest{Owner: w.Owner})
				if err == nil && resp != nil {
					mm := map[string]string{}
					for _, p := range resp.VestingPools {
						mm[p.Name] = p.Withdrawable
					}
					m.preQuery[w.Owner] = mm
				}
			}
		}
	}
}

func signerAddr(tx *kernel.Tx) string { return kernel.ActorBech(tx.Signer) }

func (m *vestingMonitor) AfterTx(r *kernel.Run, tx *kernel.Tx, msgs []sdk.Msg, res *kernel.TxResult) {
	if m.pre == nil || len(msgs) != 1 {
		return
	}
	msg := msgs[0]
	post := takeVSnap(r.Chain, m.C05)
	pre := m.pre
	custom := isCustomMsg(msg)
	if pre.denom != post.denom && len(pre.pools) > 0 {
		// pools carry amounts only, their denomination is the module parameter: every oracle below presupposes this
		r.Violate("C13", "denom-locked", "vesting-denom-changed-with-pools", "%s changed the vesting denomination from %s to %s while %d owners have pools", sdk.MsgTypeURL(msg), pre.denom, post.denom, len(pre.pools))
	}
	if m.C17 {
		m.updateLineage(r, msg, res, pre, post)
	}
	if m.C05 || m.C17 {
		m.checkState(r, post, "after "+sdk.MsgTypeURL(msg))
	}
	if custom && m.C05 {
		m.checkC05Transition(r, tx, msg, res, pre, post)
	}
	if custom && m.C06 {
		m.checkC06(r, tx, msg, res, pre, post)
	}
	if custom && m.C08 {
		m.checkC08(r, tx, msg, res, pre, post)
	}
	if custom && m.C09 {
		m.checkC09(r, tx, msg, res, pre, post)
	}
	if custom && m.C18 {
		m.checkC18(r, msg, res, pre, post)
	}
}

// ------------------------------------------------------------------------------------------ C05

func feeOf(tx *kernel.Tx) sdk.Coins { return kernel.MustCoinsLenient(tx.Fee) }

// balancesEqualExceptFee: balances identical except that the signer paid at most its fee to the fee collector.
func balancesEqualExceptFee(pre, post kernel.Balances, tx *kernel.Tx) (bool, string) {
	d := pre.Diff(post)
	signer := signerAddr(tx)
	feeColl := kernel.ModuleAddr(authtypes.FeeCollectorName).String()
	fee := feeOf(tx)
	for addr, dd := range d {
		for denom, delta := range dd {
			switch addr {
			case signer:
				if tx.Route == "direct" || delta.IsPositive() || delta.Neg().GT(fee.AmountOf(denom)) {
					return false, fmt.Sprintf("%s %s%s", addr, delta, denom)
				}
			case feeColl:
				if tx.Route == "direct" || delta.IsNegative() || delta.GT(fee.AmountOf(denom)) {
					return false, fmt.Sprintf("%s %s%s", addr, delta, denom)
				}
			default:
				return false, fmt.Sprintf("%s %s%s", addr, delta, denom)
			}
		}
	}
	return true, ""
}

func (m *vestingMonitor) checkC05Transition(r *kernel.Run, tx *kernel.Tx, msg sdk.Msg, res *kernel.TxResult, pre, post *vSnap) {
	m.evals++
	name := sdk.MsgTypeURL(msg)
	if !res.OK {
		r.Stats.Inc("probe.vesting_msg_rejected")
		// a rejected message changes nothing
		if !storesEqual(pre.vstore, post.vstore) {
			r.Violate("C05", "rejected-changes-nothing", "rejected-changed-vesting-store:"+name, "rejected %s (%s) changed the vesting store: %s", name, firstLineOf(res.Log), storeDiff(pre.vstore, post.vstore))
		}
		if ok, what := balancesEqualExceptFee(pre.bal, post.bal, tx); !ok {
			r.Violate("C05", "rejected-changes-nothing", "rejected-moved-coins:"+name, "rejected %s (%s) moved coins: %s", name, firstLineOf(res.Log), what)
		}
		signer := signerAddr(tx)
		for addr, bz := range pre.accs {
			if addr == signer && tx.Route != "direct" {
				continue
			}
			if !bytes.Equal(bz, post.accs[addr]) {
				r.Violate("C05", "rejected-changes-nothing", "rejected-changed-account:"+name, "rejected %s changed account %s", name, addr)
			}
		}
		for addr := range post.accs {
			if _, ok := pre.accs[addr]; !ok && !(addr == signer) {
				r.Violate("C05", "rejected-changes-nothing", "rejected-created-account:"+name, "rejected %s created account %s", name, addr)
			}
		}
		return
	}
	r.Stats.Inc("probe.vesting_msg_ok")
	// M-vest: legality of every pool change under the accepted message
	now := pre.now
	for _, o := range sortedOwners(post.pools) {
		for _, n := range sortedPools(post.pools[o]) {
			q := post.pools[o][n]
			p, existed := pre.pools[o][n]
			if !existed {
				cp, ok := msg.(*vtypes.MsgCreateVestingPool)
				if !ok || cp.Owner != o || cp.Name != n || !q.Init.Equal(cp.Amount) || !q.Sent.IsZero() || !q.Wd.IsZero() {
					r.Violate("C05", "pool-ledger", "illegal-new-pool", "%s created pool %s/%s {init %s sent %s wd %s}", name, o, n, q.Init, q.Sent, q.Wd)
				}
				continue
			}
			if !q.Init.Equal(p.Init) {
				r.Violate("C05", "pool-ledger", "initially-locked-changed", "%s changed initially_locked of %s/%s from %s to %s", name, o, n, p.Init, q.Init)
			}
			dSent := q.Sent.Sub(p.Sent)
			if !dSent.IsZero() {
				s, ok := msg.(*vtypes.MsgSendToVestingAccount)
				if !ok || s.Owner != o || s.VestingPoolName != n || !dSent.Equal(s.Amount) {
					r.Violate("C05", "pool-ledger", "illegal-sent-change", "%s changed sent of %s/%s by %s", name, o, n, dSent)
				}
			}
			dWd := q.Wd.Sub(p.Wd)
			if !dWd.IsZero() {
				legalMsg := false
				switch t := msg.(type) {
				case *vtypes.MsgWithdrawAllAvailable:
					legalMsg = t.Owner == o
				case *vtypes.MsgSendToVestingAccount:
					legalMsg = t.Owner == o
				}
				if !legalMsg || dWd.IsNegative() || now.Before(p.LockEnd) {
					r.Violate("C05", "pool-ledger", "illegal-withdrawn-change", "%s changed withdrawn of %s/%s by %s at %s (lock end %s)", name, o, n, dWd, now.Format(time.RFC3339Nano), p.LockEnd.Format(time.RFC3339Nano))
				}
			}
		}
	}
	for _, o := range sortedOwners(pre.pools) {
		for _, n := range sortedPools(pre.pools[o]) {
			if _, ok := post.pools[o][n]; !ok {
				r.Violate("C05", "pool-ledger", "pool-vanished", "%s removed pool %s/%s", name, o, n)
			}
		}
	}
}

func storesEqual(a, b map[string][]byte) bool {
	if len(a) != len(b) {
		return false
	}
	for k, v := range a {
		if !bytes.Equal(v, b[k]) {
			return false
		}
	}
	return true
}

func storeDiff(a, b map[string][]byte) string {
	var out []string
	for k, v := range a {
		if w, ok := b[k]; !ok {
			out = append(out, fmt.Sprintf("-%q", k))
		} else if !bytes.Equal(v, w) {
			out = append(out, fmt.Sprintf("~%q", k))
		}
	}
	for k := range b {
		if _, ok := a[k]; !ok {
			out = append(out, fmt.Sprintf("+%q", k))
		}
	}
	sort.Strings(out)
	if len(out) > 4 {
		out = out[:4]
	}
	return strings.Join(out, " ")
}

// ------------------------------------------------------------------------------------------ C06

func (m *vestingMonitor) checkC06(r *kernel.Run, tx *kernel.Tx, msg sdk.Msg, res *kernel.TxResult, pre, post *vSnap) {
	w, ok := msg.(*vtypes.MsgWithdrawAllAvailable)
	now := pre.now
	// nothing leaves a pool before its lock end except by a send that creates a new vesting account
	for _, o := range sortedOwners(pre.pools) {
		for _, n := range sortedPools(pre.pools[o]) {
			p := pre.pools[o][n]
			q, ok2 := post.pools[o][n]
			if !ok2 {
				continue
			}
			if now.Before(p.LockEnd) && !q.Wd.Equal(p.Wd) {
				m.evals++
				r.Violate("C06", "time-lock", "withdrawn-before-lock-end", "%s withdrew %s from %s/%s at %s, lock end %s", sdk.MsgTypeURL(msg), q.Wd.Sub(p.Wd), o, n, now.Format(time.RFC3339Nano), p.LockEnd.Format(time.RFC3339Nano))
			}
		}
	}
	if !ok || !res.OK {
		return
	}
	m.evals++
	owner := w.Owner
	expected := sdk.ZeroInt()
	matured, lockedPools := 0, 0
	for _, n := range sortedPools(pre.pools[owner]) {
		p := pre.pools[owner][n]
		q := post.pools[owner][n]
		remainder := p.Init.Sub(p.Sent).Sub(p.Wd)
		if !now.Before(p.LockEnd) {
			matured++
			if now.Equal(p.LockEnd) {
				r.Stats.Inc("probe.withdraw_exactly_at_lock_end")
			}
			expected = expected.Add(remainder)
			if !q.Init.Sub(q.Sent).Sub(q.Wd).IsZero() {
				r.Violate("C06", "withdraw-all", "matured-pool-not-emptied", "withdraw at %s left %s in matured pool %s/%s (lock end %s)", now.Format(time.RFC3339Nano), q.Init.Sub(q.Sent).Sub(q.Wd), owner, n, p.LockEnd.Format(time.RFC3339Nano))
			}
		} else {
			lockedPools++
			if now.Add(time.Nanosecond).Equal(p.LockEnd) {
				r.Stats.Inc("probe.withdraw_1ns_before_lock_end")
			}
		}
		// query agreement: what the pool query reported in this block equals what this withdrawal took from the pool
		if mq, ok := m.preQuery[owner]; ok {
			if rep, ok := mq[n]; ok {
				took := q.Wd.Sub(p.Wd)
				if rep != took.String() {
					r.Violate("C06", "query-agreement", "query-withdrawable-differs", "pool query reported withdrawable %s for %s/%s, the withdrawal in the same block took %s", rep, owner, n, took)
				}
			}
		}
	}
	if matured > 0 && lockedPools > 0 {
		r.Stats.Inc("probe.withdraw_mixed_matured_and_locked")
	}
	// the owner is paid exactly the matured remainders
	paid := post.bal[owner].AmountOf(pre.denom).Sub(pre.bal[owner].AmountOf(pre.denom))
	if owner == signerAddr(tx) && tx.Route != "direct" {
		paid = paid.Add(feeOf(tx).AmountOf(pre.denom))
	}
	if !paid.Equal(expected) {
		r.Violate("C06", "withdraw-all", "withdraw-paid-wrong-amount", "withdraw at %s paid %s, matured remainders were %s", now.Format(time.RFC3339Nano), paid, expected)
	}
	if expected.IsPositive() {
		r.Stats.Inc("probe.withdraw_paid")
	}
	// a repeated withdrawal pays zero
	if m.lastWithdrawOwner == owner && m.lastWithdrawBlock == r.BlockIdx {
		r.Stats.Inc("probe.repeated_withdraw_same_block")
		if !paid.IsZero() {
			r.Violate("C06", "withdraw-all", "repeated-withdraw-paid", "a repeated withdrawal in the same block paid %s", paid)
		}
	}
	m.lastWithdrawOwner, m.lastWithdrawBlock = owner, r.BlockIdx
}

// ------------------------------------------------------------------------------------------ C08

func (m *vestingMonitor) vestingTypeOf(r *kernel.Run, name string) (free *big.Rat, lockup, vesting time.Duration, ok bool) {
	vt, err := r.Chain.App.CfevestingKeeper.GetVestingType(r.Chain.Ctx(), name)
	if err != nil {
		return nil, 0, 0, false
	}
	if v0, ok := m.types0[name]; ok {
		vt = v0 // what was configured, not what a restart or an import may have made of it
	}
	return new(big.Rat).SetFrac(vt.Free.BigInt(), bigE18), vt.LockupPeriod, vt.VestingPeriod, true
}

func (m *vestingMonitor) checkC08(r *kernel.Run, tx *kernel.Tx, msg sdk.Msg, res *kernel.TxResult, pre, post *vSnap) {
	now := pre.now
	switch t := msg.(type) {
	case *vtypes.MsgSendToVestingAccount:
		m.evals++
		p, havePool := pre.pools[t.Owner][t.VestingPoolName]
		if !res.OK {
			return
		}
		if !havePool {
			r.Violate("C08", "pool-send", "send-from-unknown-pool", "send from unknown pool %s/%s accepted", t.Owner, t.VestingPoolName)
			return
		}
		// the pool must have had the amount after the implicit withdrawal of matured pools
		avail := p.Init.Sub(p.Sent).Sub(p.Wd)
		if !now.Before(p.LockEnd) {
			avail = sdk.ZeroInt() // matured remainder is withdrawn to the owner first
		}
		if t.Amount.GT(avail) {
			r.Violate("C08", "pool-send", "send-above-locked", "send of %s accepted with only %s locked in %s/%s", t.Amount, avail, t.Owner, t.VestingPoolName)
		}
		q := post.pools[t.Owner][t.VestingPoolName]
		if !q.Sent.Sub(p.Sent).Equal(t.Amount) {
			r.Violate("C08", "pool-send", "sent-counter", "pool sent counter grew by %s for a send of %s", q.Sent.Sub(p.Sent), t.Amount)
		}
		if _, existed := pre.accs[t.ToAddress]; existed {
			r.Violate("C08", "pool-send", "recipient-existed", "send accepted although %s already existed", t.ToAddress)
			return
		}
		to, _ := sdk.AccAddressFromBech32(t.ToAddress)
		acc := r.Chain.App.AccountKeeper.GetAccount(r.Chain.Ctx(), to)
		cva, ok := acc.(*authvesting.ContinuousVestingAccount)
		if !ok {
			r.Violate("C08", "pool-send", "recipient-not-continuous-vesting", "recipient %s is %T after a pool send", t.ToAddress, acc)
			return
		}
		got := post.bal[t.ToAddress]
		if !coinsEq(got, coinsOf(pre.denom, t.Amount)) {
			r.Violate("C08", "pool-send", "recipient-amount", "recipient received %s for a send of %s%s", got, t.Amount, pre.denom)
		}
		free, lockup, vesting, ok := m.vestingTypeOf(r, p.VType)
		if !ok {
			return
		}
		// original vesting = integer part of amount * (1 - free)
		one := big.NewRat(1, 1)
		want := new(big.Rat).Mul(new(big.Rat).SetInt(t.Amount.BigInt()), new(big.Rat).Sub(one, free))
		wantInt := new(big.Int).Quo(want.Num(), want.Denom())
		gotOV := cva.OriginalVesting.AmountOf(pre.denom)
		if gotOV.BigInt().Cmp(wantInt) != 0 || len(cva.OriginalVesting) > 1 {
			r.Violate("C08", "pool-send", "original-vesting", "original vesting %s for amount %s and free fraction %s (expected %s)", cva.OriginalVesting, t.Amount, free.FloatString(18), wantInt)
		}
		if free.Sign() > 0 && free.Cmp(one) < 0 {
			r.Stats.Inc("probe.send_fractional_free")
		}
		if t.RestartVesting {
			r.Stats.Inc("probe.send_restart")
			ws := now.Add(lockup).Unix()
			we := now.Add(lockup).Add(vesting).Unix()
			if cva.StartTime != ws || cva.EndTime != we {
				r.Violate("C08", "pool-send", "restart-schedule", "restart send at %d: schedule [%d,%d], documented [%d,%d]", now.Unix(), cva.StartTime, cva.EndTime, ws, we)
			}
		} else {
			r.Stats.Inc("probe.send_no_restart")
			le := p.LockEnd.Unix()
			if now.After(p.LockEnd) {
				r.Stats.Inc("probe.send_no_restart_after_lock_end")
			}
			if cva.EndTime != le || cva.StartTime != le { // "both at the pool's lock end", also when that lies in the past

				r.Violate("C08", "pool-send", "no-restart-schedule", "send without restart: schedule [%d,%d], pool lock end %d (now %d)", cva.StartTime, cva.EndTime, le, now.Unix())
			}
		}
	case *vtypes.MsgCreateVestingAccount:
		if !res.OK {
			return
		}
		m.evals++
		r.Stats.Inc("probe.create_vesting_account_ok")
		if _, existed := pre.accs[t.ToAddress]; existed {
			r.Violate("C08", "direct-create", "recipient-existed", "create vesting account accepted although %s already existed", t.ToAddress)
			return
		}
		to, _ := sdk.AccAddressFromBech32(t.ToAddress)
		acc := r.Chain.App.AccountKeeper.GetAccount(r.Chain.Ctx(), to)
		cva, ok := acc.(*authvesting.ContinuousVestingAccount)
		if !ok {
			r.Violate("C08", "direct-create", "recipient-not-continuous-vesting", "recipient %s is %T", t.ToAddress, acc)
			return
		}
		amt := sdk.NewCoins(t.Amount...)
		if !coinsEq(post.bal[t.ToAddress], amt) {
			r.Violate("C08", "direct-create", "recipient-amount", "recipient holds %s after create vesting account of %s", post.bal[t.ToAddress], amt)
		}
		if !coinsEq(cva.OriginalVesting, amt) || cva.StartTime != t.StartTime || cva.EndTime != t.EndTime {
			r.Violate("C08", "direct-create", "schedule", "account {ov %s, %d..%d} for request {%s, %d..%d}", cva.OriginalVesting, cva.StartTime, cva.EndTime, amt, t.StartTime, t.EndTime)
		}
		// the sender paid exactly the coins (plus its fee)
		spent := pre.bal[t.FromAddress].Sub(post.bal[t.FromAddress]...)
		want := amt
		if t.FromAddress == signerAddr(tx) && tx.Route != "direct" {
			want = want.Add(feeOf(tx)...)
		}
		if !coinsEq(spent, want) {
			r.Violate("C08", "direct-create", "sender-amount", "sender spent %s for a vesting account of %s", spent, amt)
		}
		if t.StartTime == t.EndTime {
			r.Stats.Inc("probe.create_vesting_account_start_eq_end")
		}
	}
}

func coinsOf(denom string, amt sdk.Int) sdk.Coins {
	if !amt.IsPositive() {
		return sdk.NewCoins()
	}
	return sdk.NewCoins(sdk.NewCoin(denom, amt))
}

// ------------------------------------------------------------------------------------------ C09

func (m *vestingMonitor) checkC09(r *kernel.Run, tx *kernel.Tx, msg sdk.Msg, res *kernel.TxResult, pre, post *vSnap) {
	m.evals++
	signer := signerAddr(tx)
	cdc := r.Chain.App.AccountKeeper
	for addr, bz := range pre.accs {
		after, ok := post.accs[addr]
		if !ok {
			r.Violate("C09", "existing-accounts", "account-removed:"+sdk.MsgTypeURL(msg), "%s removed account %s", sdk.MsgTypeURL(msg), addr)
			continue
		}
		if bytes.Equal(bz, after) {
			continue
		}
		a0, e0 := cdc.UnmarshalAccount(bz)
		a1, e1 := cdc.UnmarshalAccount(after)
		if e0 != nil || e1 != nil {
			r.Violate("C09", "existing-accounts", "account-unreadable", "account %s cannot be decoded", addr)
			continue
		}
		what := describeAccountChange(a0, a1)
		allowed := false
		// the ante handler bumps the signer's sequence and records its public key on first use
		if addr == signer && tx.Route != "direct" && onlySeqAndFirstPubKey(a0, a1) {
			allowed = true
		}
		// a successful split/move reduces the sender's own original vesting
		if res.OK && addr == splitSender(msg) {
			if onlyOriginalVestingReduced(a0, a1, addr == signer && tx.Route != "direct") {
				allowed = true
				r.Stats.Inc("probe.split_reduced_sender_original_vesting")
			}
		}
		// SDK bank bookkeeping: sending coins out of a vesting account updates no account fields; delegation tracking is not a custom message
		if !allowed {
			r.Violate("C09", "existing-accounts", "existing-account-modified:"+sdk.MsgTypeURL(msg), "%s (ok=%v) changed existing account %s: %s", sdk.MsgTypeURL(msg), res.OK, addr, what)
		}
	}
}

func splitSender(msg sdk.Msg) string {
	switch t := msg.(type) {
	case *vtypes.MsgSplitVesting:
		return t.FromAddress
	case *vtypes.MsgMoveAvailableVesting:
		return t.FromAddress
	case *vtypes.MsgMoveAvailableVestingByDenoms:
		return t.FromAddress
	}
	return ""
}

func describeAccountChange(a0, a1 authtypes.AccountI) string {
	return fmt.Sprintf("type %T->%T, number %d->%d, sequence %d->%d, pubkey %v->%v", a0, a1, a0.GetAccountNumber(), a1.GetAccountNumber(), a0.GetSequence(), a1.GetSequence(), a0.GetPubKey() != nil, a1.GetPubKey() != nil)
}

func sameExceptSeqPub(a0, a1 authtypes.AccountI) bool {
	if fmt.Sprintf("%T", a0) != fmt.Sprintf("%T", a1) || a0.GetAccountNumber() != a1.GetAccountNumber() || !a0.GetAddress().Equals(a1.GetAddress()) {
		return false
	}
	return true
}

func vestingFieldsEqual(a0, a1 authtypes.AccountI, allowOVReduction bool) bool {
	v0, ok0 := a0.(*authvesting.ContinuousVestingAccount)
	v1, ok1 := a1.(*authvesting.ContinuousVestingAccount)
	if ok0 != ok1 {
		return false
	}
	if !ok0 {
		// other account kinds: compare everything but sequence/pubkey through their string form of the non-base part
		d0, okd0 := a0.(*authvesting.DelayedVestingAccount)
		d1, okd1 := a1.(*authvesting.DelayedVestingAccount)
		if okd0 != okd1 {
			return false
		}
		if okd0 {
			return coinsEq(d0.OriginalVesting, d1.OriginalVesting) && d0.EndTime == d1.EndTime && coinsEq(d0.DelegatedVesting, d1.DelegatedVesting) && coinsEq(d0.DelegatedFree, d1.DelegatedFree)
		}
		mm0, okm0 := a0.(*authtypes.ModuleAccount)
		mm1, okm1 := a1.(*authtypes.ModuleAccount)
		if okm0 != okm1 {
			return false
		}
		if okm0 {
			return mm0.Name == mm1.Name && strings.Join(mm0.Permissions, ",") == strings.Join(mm1.Permissions, ",")
		}
		return true
	}
	if v0.StartTime != v1.StartTime || v0.EndTime != v1.EndTime || !coinsEq(v0.DelegatedVesting, v1.DelegatedVesting) || !coinsEq(v0.DelegatedFree, v1.DelegatedFree) {
		return false
	}
	if coinsEq(v0.OriginalVesting, v1.OriginalVesting) {
		return true
	}
	if !allowOVReduction {
		return false
	}
	// reduction only: every denom less or equal, at least one smaller
	return v1.OriginalVesting.IsAllLTE(v0.OriginalVesting)
}

func pubKeyUnchangedOrFirstSet(a0, a1 authtypes.AccountI) bool {
	p0, p1 := a0.GetPubKey(), a1.GetPubKey()
	if p0 == nil {
		return true // first use records the key
	}
	return p1 != nil && p0.Equals(p1)
}

func onlySeqAndFirstPubKey(a0, a1 authtypes.AccountI) bool {
	if !sameExceptSeqPub(a0, a1) || !vestingFieldsEqual(a0, a1, false) {
		return false
	}
	if a1.GetSequence() != a0.GetSequence() && a1.GetSequence() != a0.GetSequence()+1 {
		return false
	}
	return pubKeyUnchangedOrFirstSet(a0, a1)
}

func onlyOriginalVestingReduced(a0, a1 authtypes.AccountI, isSigner bool) bool {
	if !sameExceptSeqPub(a0, a1) || !vestingFieldsEqual(a0, a1, true) {
		return false
	}
	if isSigner {
		if a1.GetSequence() != a0.GetSequence() && a1.GetSequence() != a0.GetSequence()+1 {
			return false
		}
		return pubKeyUnchangedOrFirstSet(a0, a1)
	}
	if a1.GetSequence() != a0.GetSequence() {
		return false
	}
	p0, p1 := a0.GetPubKey(), a1.GetPubKey()
	if (p0 == nil) != (p1 == nil) {
		return false
	}
	return p0 == nil || p0.Equals(p1)
}

// ------------------------------------------------------------------------------------------ C17

func (m *vestingMonitor) updateLineage(r *kernel.Run, msg sdk.Msg, res *kernel.TxResult, pre, post *vSnap) {
	if res.OK {
		switch t := msg.(type) {
		case *vtypes.MsgSendToVestingAccount:
			p := pre.pools[t.Owner][t.VestingPoolName]
			m.lineage[t.ToAddress] = vtypes.VestingAccountTrace{Address: t.ToAddress, FromGenesisPool: p.Genesis}
			if p.Genesis {
				r.Stats.Inc("probe.send_from_genesis_pool")
			}
		case *vtypes.MsgSplitVesting, *vtypes.MsgMoveAvailableVesting, *vtypes.MsgMoveAvailableVestingByDenoms:
			from := splitSender(msg)
			to := splitRecipient(msg)
			if src, ok := m.lineage[from]; ok {
				nt := vtypes.VestingAccountTrace{Address: to, FromGenesisPool: src.FromGenesisPool, FromGenesisAccount: src.Genesis || src.FromGenesisAccount}
				m.lineage[to] = nt
				if nt.FromGenesisAccount || nt.FromGenesisPool {
					r.Stats.Inc("probe.lineage_propagated")
					if src.FromGenesisAccount || (src.FromGenesisPool && !src.Genesis) {
						r.Stats.Inc("probe.lineage_depth_ge_2")
					}
				}
			}
		}
	}
	// compare the recorded traces with the lineage model (presence and flags)
	m.evals++
	for addr, want := range m.lineage {
		got, ok := post.traces[addr]
		if !ok {
			r.Violate("C17", "lineage", "trace-missing", "%s should be tracked (genesis-derived=%v) but has no trace", addr, want.IsGenesisOrFromGenesis())
			continue
		}
		if got.Genesis != want.Genesis || got.FromGenesisPool != want.FromGenesisPool || got.FromGenesisAccount != want.FromGenesisAccount {
			r.Violate("C17", "lineage", "trace-flags", "trace of %s is {genesis %v, from_pool %v, from_account %v}, lineage says {%v, %v, %v}", addr, got.Genesis, got.FromGenesisPool, got.FromGenesisAccount, want.Genesis, want.FromGenesisPool, want.FromGenesisAccount)
		}
	}
	for addr := range post.traces {
		if _, ok := m.lineage[addr]; !ok {
			r.Violate("C17", "lineage", "trace-unexpected", "%s has a trace but no lineage event created it", addr)
		}
	}
}

func splitRecipient(msg sdk.Msg) string {
	switch t := msg.(type) {
	case *vtypes.MsgSplitVesting:
		return t.ToAddress
	case *vtypes.MsgMoveAvailableVesting:
		return t.ToAddress
	case *vtypes.MsgMoveAvailableVestingByDenoms:
		return t.ToAddress
	}
	return ""
}

// checkSummaries: both summary queries equal sums recomputed from bank and account state over the tracked accounts.
func (m *vestingMonitor) checkSummaries(r *kernel.Run, s *vSnap, where string) {
	c := r.Chain
	ctx := c.Ctx()
	for _, genesisOnly := range []bool{false, true} {
		m.evals++
		var all, inPools, inAccs, delegated sdk.Int
		if genesisOnly {
			resp, err := c.App.CfevestingKeeper.GenesisVestingsSummary(sdk.WrapSDKContext(ctx), &vtypes.QueryGenesisVestingsSummaryRequest{})
			if err != nil || resp == nil {
				r.Violate("C17", "summary", "summary-query-error", "%s: genesis summary query failed: %v", where, err)
				continue
			}
			all, inPools, inAccs, delegated = resp.VestingAllAmount, resp.VestingInPoolsAmount, resp.VestingInAccountsAmount, resp.DelegatedVestingAmount
		} else {
			resp, err := c.App.CfevestingKeeper.VestingsSummary(sdk.WrapSDKContext(ctx), &vtypes.QueryVestingsSummaryRequest{})
			if err != nil || resp == nil {
				r.Violate("C17", "summary", "summary-query-error", "%s: summary query failed: %v", where, err)
				continue
			}
			all, inPools, inAccs, delegated = resp.VestingAllAmount, resp.VestingInPoolsAmount, resp.VestingInAccountsAmount, resp.DelegatedVestingAmount
		}
		// recomputation
		pools := sdk.ZeroInt()
		for _, o := range sortedOwners(s.pools) {
			for _, n := range sortedPools(s.pools[o]) {
				p := s.pools[o][n]
				if genesisOnly && !p.Genesis {
					continue
				}
				pools = pools.Add(p.Init.Sub(p.Sent).Sub(p.Wd))
			}
		}
		vest, locked := sdk.ZeroInt(), sdk.ZeroInt()
		addrs := make([]string, 0, len(m.lineage))
		for a := range m.lineage {
			addrs = append(addrs, a)
		}
		sort.Strings(addrs)
		for _, a := range addrs {
			t := m.lineage[a]
			if genesisOnly && !t.IsGenesisOrFromGenesis() {
				continue
			}
			addr, err := sdk.AccAddressFromBech32(a)
			if err != nil {
				continue
			}
			acc := c.App.AccountKeeper.GetAccount(ctx, addr)
			if cva, ok := acc.(*authvesting.ContinuousVestingAccount); ok {
				lc, ok := c.SafeLockedCoins(addr)
				if !ok {
					continue // degenerate schedule on which the SDK's own arithmetic panics: nothing to recompute
				}
				vest = vest.Add(cva.GetVestingCoins(c.Now).AmountOf(s.denom))
				locked = locked.Add(lc.AmountOf(s.denom))
			}
		}
		label := "summary"
		if genesisOnly {
			label = "genesis-summary"
		}
		if !inPools.Equal(pools) || !inAccs.Equal(vest) || !all.Equal(pools.Add(vest)) || !delegated.Equal(vest.Sub(locked)) {
			r.Violate("C17", "summary", label+"-differs", "%s: %s query {all %s pools %s accounts %s delegated %s} but recomputed {all %s pools %s accounts %s delegated %s}", where, label,
				all, inPools, inAccs, delegated, pools.Add(vest), pools, vest, vest.Sub(locked))
		}
		if vest.Sub(locked).IsPositive() {
			r.Stats.Inc("probe.summary_with_delegated_vesting")
		}
	}
}

// ------------------------------------------------------------------------------------------ C18 (withdrawals)

func (m *vestingMonitor) checkC18(r *kernel.Run, msg sdk.Msg, res *kernel.TxResult, pre, post *vSnap) {
	var owner string
	switch t := msg.(type) {
	case *vtypes.MsgWithdrawAllAvailable:
		owner = t.Owner
	case *vtypes.MsgSendToVestingAccount:
		owner = t.Owner
	default:
		return
	}
	if !res.OK {
		return
	}
	m.evals++
	evs := kernel.EventAttrs(res.Events, "chain4energy.c4echain.cfevesting.WithdrawAvailable")
	// per pool: exactly the amount withdrawn from that pool
	took := map[string]sdk.Int{}
	total := sdk.ZeroInt()
	paying := 0
	for _, n := range sortedPools(pre.pools[owner]) {
		d := post.pools[owner][n].Wd.Sub(pre.pools[owner][n].Wd)
		if d.IsPositive() {
			took[n] = d
			total = total.Add(d)
			paying++
		}
	}
	if paying >= 2 {
		r.Stats.Inc("probe.withdraw_from_several_pools")
	}
	sum := sdk.ZeroInt()
	seen := map[string]bool{}
	for _, ev := range evs {
		pool := trimQuotes(ev["vesting_pool_name"])
		amtStr := strings.TrimSuffix(trimQuotes(ev["amount"]), pre.denom)
		amt, ok := sdk.NewIntFromString(amtStr)
		if !ok {
			r.Violate("C18", "withdraw-events", "unparsable-amount", "withdraw event amount %q", ev["amount"])
			return
		}
		want, paid := took[pool]
		if !paid {
			r.Violate("C18", "withdraw-events", "event-for-pool-that-paid-nothing", "withdraw event for pool %s (amount %s) although nothing was withdrawn from it", pool, amt)
			return
		}
		if !amt.Equal(want) {
			r.Violate("C18", "withdraw-events", "event-amount-differs", "withdraw event for pool %s reports %s, withdrawn from that pool: %s", pool, amt, want)
			return
		}
		seen[pool] = true
		sum = sum.Add(amt)
	}
	for n := range took {
		if !seen[n] {
			r.Violate("C18", "withdraw-events", "event-missing", "no withdraw event for pool %s that paid %s", n, took[n])
			return
		}
	}
	if !sum.Equal(total) {
		r.Violate("C18", "withdraw-events", "events-sum-differs", "withdraw events add up to %s, paid out %s", sum, total)
	}
}

var _ = sigtypes.ModuleName
