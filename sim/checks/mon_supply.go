package checks

import (
	sdk "github.com/cosmos/cosmos-sdk/types"
	abci "github.com/tendermint/tendermint/abci/types"

	"verifsim/kernel"
)

// supplyMonitor: bank total supply equals the sum of all balances, after every BeginBlock and every message.
// Attribution is per property: C01 in the everything profile, C14 under distributor faults.
type supplyMonitor struct {
	kernel.NopMonitor
	Prop  string
	evals int64
}

func (m *supplyMonitor) check(r *kernel.Run, where string) {
	if r.Chain.Halted != nil {
		return
	}
	m.evals++
	sup := r.Chain.Supply()
	sum := r.Chain.AllBalances().Sum()
	if !coinsEq(sup, sum) {
		r.Violate(m.Prop, "supply-vs-balances", "supply-differs-from-balances", "%s: total supply %s but balances add up to %s (difference %s)", where, sup, sum, diffCoins(sup, sum))
	}
}

func diffCoins(a, b sdk.Coins) string {
	d, neg := a.SafeSub(b...)
	if neg {
		d2, _ := b.SafeSub(a...)
		_ = d
		return "-" + d2.String() + " (mixed)"
	}
	return d.String()
}

func (m *supplyMonitor) Init(r *kernel.Run) { m.check(r, "after genesis") }
func (m *supplyMonitor) AfterBegin(r *kernel.Run, _ abci.ResponseBeginBlock) {
	m.check(r, "after BeginBlock")
}
func (m *supplyMonitor) AfterTx(r *kernel.Run, _ *kernel.Tx, _ []sdk.Msg, _ *kernel.TxResult) {
	m.check(r, "after message")
}
func (m *supplyMonitor) AfterEnd(r *kernel.Run, _ abci.ResponseEndBlock) {
	m.check(r, "after EndBlock")
}
