package checks

import (
	"bufio"
	"encoding/json"
	"flag"
	"fmt"
	"os"
	"os/exec"
	"path/filepath"
	"runtime"
	"sort"
	"strconv"
	"strings"
	"sync"
	"time"

	"verifsim/kernel"
)

// Tier bounds one tier of one property.
type Tier struct {
	Runs      int // maximum number of seeded runs
	BudgetSec int // wall-clock budget for the search (workers stop starting new runs after it)
}

// Outcome of one simulated run (one seed, or one replayed trace).
type Outcome struct {
	Trace       *kernel.Trace
	Violations  []*kernel.Violation
	Stats       kernel.Stats
	Fingerprint string // hash of profile toggles + step kinds + outcome classes + faults fired
	Nontrivial  bool   // the property's trigger probes fired in this run
	Evals       int64  // oracle evaluations
	InfraErr    error
	Sample      interface{}
	Hashes      []string          // app hash after every block (filled by the executors that replicas are compared on)
	Aux         map[string]string // executor-specific facts about the final state (compared between twin runs)
}

// Prop is one registered property check.
type Prop struct {
	ID             string
	Level          string // exploration | fault_enumeration
	Rule           string
	Quick          Tier
	Thorough       Tier
	RunSeed        func(seed uint64, tier string) *Outcome
	Replay         func(tr *kernel.Trace) *Outcome
	Enumerate      func(tier string, emit func(*Outcome)) // optional deterministic enumeration part (fault_enumeration)
	Real           []string
	Stub           []string
	Assumes        []string
	FaultKinds     []string
	upgradeWrapped bool
}

var registry = map[string]*Prop{}

func Register(p *Prop) { registry[p.ID] = p }

func verifDir() string {
	if d := os.Getenv("VERIF_DIR"); d != "" {
		return d
	}
	return "/verif"
}

func batchSeed() uint64 {
	if s := os.Getenv("VERIF_SEED"); s != "" {
		if v, err := strconv.ParseUint(strings.TrimSpace(s), 10, 64); err == nil {
			return v
		}
		if v, err := strconv.ParseInt(strings.TrimSpace(s), 10, 64); err == nil {
			return uint64(v)
		}
	}
	return 1
}

func propNum(id string) uint64 {
	n, _ := strconv.Atoi(strings.TrimPrefix(id, "C"))
	return uint64(n)
}

// RunSeedFor is the seed of run i of a property in a batch: one integer decides everything.
func RunSeedFor(batch uint64, prop string, i int) uint64 {
	return kernel.Mix(batch, propNum(prop), uint64(i))
}

func Main(args []string) int {
	applyUpgradeSubProfiles()
	if len(args) == 0 {
		fmt.Fprintln(os.Stderr, "usage: simcheck check|worker|replay|selftest|list ...")
		return 2
	}
	switch args[0] {
	case "check":
		return cmdCheck(args[1:])
	case "worker":
		return cmdWorker(args[1:])
	case "replay":
		return cmdReplay(args[1:])
	case "selftest":
		return cmdSelftest(args[1:])
	case "selftest-worker":
		return cmdSelftestWorker(args[1:])
	case "replica":
		return cmdReplica(args[1:])
	case "list":
		ids := make([]string, 0)
		for id := range registry {
			ids = append(ids, id)
		}
		sort.Strings(ids)
		for _, id := range ids {
			fmt.Println(id)
		}
		return 0
	}
	fmt.Fprintln(os.Stderr, "unknown command", args[0])
	return 2
}

// ---------------------------------------------------------------------------------------------
// worker: executes a slice of the seed range, streams JSON lines.

type workerLine struct {
	Kind      string              `json:"kind"` // "run" | "done" | "infra"
	Index     int                 `json:"i,omitempty"`
	Seed      uint64              `json:"seed,omitempty"`
	FP        string              `json:"fp,omitempty"`
	Nontriv   bool                `json:"nt,omitempty"`
	Evals     int64               `json:"ev,omitempty"`
	Stats     map[string]int64    `json:"st,omitempty"`
	Viol      []*kernel.Violation `json:"viol,omitempty"`
	TraceFile string              `json:"trace,omitempty"`
	Sample    interface{}         `json:"sample,omitempty"`
	Err       string              `json:"err,omitempty"`
}

func cmdWorker(args []string) int {
	fs := flag.NewFlagSet("worker", flag.ContinueOnError)
	prop := fs.String("prop", "", "")
	tier := fs.String("tier", "quick", "")
	w := fs.Int("w", 0, "worker index")
	nw := fs.Int("nw", 1, "number of workers")
	runs := fs.Int("runs", 1, "")
	budget := fs.Int("budget", 60, "")
	enum := fs.Bool("enum", false, "run the enumeration part (worker 0 only)")
	if err := fs.Parse(args); err != nil {
		return 2
	}
	p := registry[*prop]
	if p == nil {
		fmt.Fprintln(os.Stderr, "unknown property", *prop)
		return 2
	}
	out := bufio.NewWriter(os.Stdout)
	defer out.Flush()
	emitLine := func(l *workerLine) {
		bz, _ := json.Marshal(l)
		out.Write(bz)
		out.WriteByte('\n')
		out.Flush()
	}
	batch := batchSeed()
	deadline := time.Now().Add(time.Duration(*budget) * time.Second)
	known := loadKnown()
	samples := 0
	handle := func(i int, seed uint64, o *Outcome) bool {
		l := &workerLine{Kind: "run", Index: i, Seed: seed, FP: o.Fingerprint, Nontriv: o.Nontrivial, Evals: o.Evals, Stats: o.Stats.Counters}
		if o.InfraErr != nil {
			l.Kind = "infra"
			l.Err = o.InfraErr.Error()
			emitLine(l)
			return false
		}
		if samples < 2 && o.Sample != nil {
			l.Sample = o.Sample
			samples++
		}
		// known findings are reported but never mask another violation of the same run
		var firstUnknown *kernel.Violation
		seenSig := map[string]bool{}
		for _, v := range o.Violations {
			if known.isKnown(v) {
				if !seenSig[v.Signature] {
					seenSig[v.Signature] = true
					l.Viol = append(l.Viol, v)
				}
			} else if firstUnknown == nil {
				firstUnknown = v
			}
		}
		if firstUnknown != nil {
			v := firstUnknown
			l.Viol = append(l.Viol, v)
			if o.Trace != nil && p.Replay != nil {
				tr := minimise(p, o.Trace, v)
				tr.Property, tr.Check, tr.Signature, tr.Message = v.Property, v.Check, v.Signature, v.Message
				if i < 0 {
					// enumerated outcomes have no run seed: one file per enumeration step
					l.TraceFile = writeReplayNamed(filepath.Join(verifDir(), "replays", fmt.Sprintf("%s-enum%d.json", p.ID, -1-i)), tr)
				} else {
					l.TraceFile = writeReplay(p.ID, seed, tr)
				}
			}
		}
		emitLine(l)
		return true
	}
	if *enum && p.Enumerate != nil {
		k := 0
		p.Enumerate(*tier, func(o *Outcome) {
			handle(-1-k, 0, o)
			k++
		})
	}
	for i := *w; i < *runs; i += *nw {
		if time.Now().After(deadline) {
			break
		}
		seed := RunSeedFor(batch, p.ID, i)
		o := safeRun(func() *Outcome { return p.RunSeed(seed, *tier) })
		if !handle(i, seed, o) {
			return 2
		}
	}
	emitLine(&workerLine{Kind: "done"})
	return 0
}

// safeRun converts a harness panic into an infrastructure error (exit 2), never a violation.
func safeRun(f func() *Outcome) (o *Outcome) {
	defer func() {
		if r := recover(); r != nil {
			buf := make([]byte, 1<<14)
			n := runtime.Stack(buf, false)
			o = &Outcome{InfraErr: fmt.Errorf("harness panic: %v\n%s", r, buf[:n])}
		}
	}()
	return f()
}

func writeReplay(prop string, seed uint64, tr *kernel.Trace) string {
	return writeReplayNamed(filepath.Join(verifDir(), "replays", fmt.Sprintf("%s-%d.json", prop, seed)), tr)
}

func writeReplayNamed(path string, tr *kernel.Trace) string {
	_ = os.MkdirAll(filepath.Dir(path), 0o755)
	bz, _ := json.MarshalIndent(tr, "", " ")
	_ = os.WriteFile(path, bz, 0o644)
	return path
}

// ---------------------------------------------------------------------------------------------
// minimisation: delta debugging over blocks, then transactions, then clock steps, keeping the signature.

func sameViolation(o *Outcome, v *kernel.Violation) bool {
	if o == nil || o.InfraErr != nil {
		return false
	}
	for _, x := range o.Violations {
		if x.Property == v.Property && x.Check == v.Check && x.Signature == v.Signature {
			return true
		}
	}
	return false
}

func minimise(p *Prop, tr *kernel.Trace, v *kernel.Violation) *kernel.Trace {
	deadline := time.Now().Add(90 * time.Second)
	execs := 0
	try := func(c *kernel.Trace) bool {
		if execs >= 200 || time.Now().After(deadline) {
			return false
		}
		execs++
		o := safeRun(func() *Outcome { return p.Replay(c) })
		return sameViolation(o, v)
	}
	cur := tr.Clone()
	// the recorded trace itself must reproduce; otherwise keep it as is (the parent will notice on replay)
	if !try(cur) {
		return tr
	}
	// cut the tail after the violating block
	if v.Block >= 0 && v.Block+1 < len(cur.Blocks) {
		c := cur.Clone()
		c.Blocks = c.Blocks[:v.Block+1]
		if try(c) {
			cur = c
		}
	}
	// ddmin over blocks
	n := 2
	for len(cur.Blocks) >= 2 && n <= len(cur.Blocks) {
		chunk := (len(cur.Blocks) + n - 1) / n
		reduced := false
		for start := 0; start < len(cur.Blocks); start += chunk {
			end := start + chunk
			if end > len(cur.Blocks) {
				end = len(cur.Blocks)
			}
			c := cur.Clone()
			// merge the removed blocks' time into the next one so absolute times are kept
			var dt int64
			for _, b := range c.Blocks[start:end] {
				dt += b.DtNs
			}
			rest := append([]kernel.Block{}, c.Blocks[:start]...)
			tail := append([]kernel.Block{}, c.Blocks[end:]...)
			if len(tail) > 0 {
				tail[0].DtNs += dt
			}
			c.Blocks = append(rest, tail...)
			if len(c.Blocks) == 0 {
				continue
			}
			if try(c) {
				cur = c
				if n > 2 {
					n--
				}
				reduced = true
				break
			}
		}
		if !reduced {
			if n >= len(cur.Blocks) {
				break
			}
			n *= 2
			if n > len(cur.Blocks) {
				n = len(cur.Blocks)
			}
		}
	}
	// drop transactions one by one (from the end)
	for bi := len(cur.Blocks) - 1; bi >= 0; bi-- {
		for ti := len(cur.Blocks[bi].Txs) - 1; ti >= 0; ti-- {
			c := cur.Clone()
			c.Blocks[bi].Txs = append(append([]kernel.Tx{}, c.Blocks[bi].Txs[:ti]...), c.Blocks[bi].Txs[ti+1:]...)
			if try(c) {
				cur = c
			}
		}
	}
	// drop faults
	for bi := range cur.Blocks {
		b := cur.Blocks[bi]
		if len(b.BankFail) > 0 || b.Crash != 0 || len(b.FailDestOn) > 0 || b.FailBurn != nil {
			c := cur.Clone()
			c.Blocks[bi].BankFail, c.Blocks[bi].Crash, c.Blocks[bi].FailDestOn, c.Blocks[bi].FailBurn = nil, 0, nil, nil
			if try(c) {
				cur = c
			}
		}
	}
	return cur
}

// ---------------------------------------------------------------------------------------------
// known findings

type knownEntry struct {
	Property  string `json:"property"`
	Signature string `json:"signature"`
	Check     string `json:"check,omitempty"`
	Status    string `json:"status"` // "known" | "fixed"
	Commit    string `json:"commit,omitempty"`
	What      string `json:"what"`
	Replay    string `json:"replay,omitempty"`
}

type knownSet struct{ entries []knownEntry }

func loadKnown() *knownSet {
	ks := &knownSet{}
	bz, err := os.ReadFile(filepath.Join(verifDir(), "known_findings.json"))
	if err != nil {
		return ks
	}
	var f struct {
		Findings []knownEntry `json:"findings"`
	}
	if json.Unmarshal(bz, &f) == nil {
		ks.entries = f.Findings
	}
	return ks
}

func (k *knownSet) match(v *kernel.Violation) *knownEntry {
	for i := range k.entries {
		e := &k.entries[i]
		if e.Status == "known" && e.Property == v.Property && e.Signature == v.Signature {
			return e
		}
	}
	return nil
}
func (k *knownSet) isKnown(v *kernel.Violation) bool { return k.match(v) != nil }

// ---------------------------------------------------------------------------------------------
// parent: spawns workers, aggregates, verifies replays, writes evidence.

type evidence struct {
	PropertyID  string                 `json:"property_id"`
	Tier        string                 `json:"tier"`
	Seed        int64                  `json:"seed"`
	Level       string                 `json:"level"`
	Coverage    map[string]interface{} `json:"coverage"`
	Assumptions []string               `json:"assumptions"`
	WallS       float64                `json:"wall_s"`
	Violations  int                    `json:"violations"`
}

func cmdCheck(args []string) int {
	fs := flag.NewFlagSet("check", flag.ContinueOnError)
	prop := fs.String("prop", "", "")
	tier := fs.String("tier", "", "")
	workers := fs.Int("workers", 0, "")
	runsOverride := fs.Int("runs", 0, "")
	budgetOverride := fs.Int("budget", 0, "")
	if err := fs.Parse(args); err != nil {
		return 2
	}
	if *tier == "" {
		*tier = os.Getenv("VERIF_TIER")
		if *tier == "" {
			*tier = "quick"
		}
	}
	p := registry[*prop]
	if p == nil {
		fmt.Fprintln(os.Stderr, "unknown property", *prop)
		return 2
	}
	t := p.Quick
	if *tier == "thorough" {
		t = p.Thorough
	}
	if *runsOverride > 0 {
		t.Runs = *runsOverride
	}
	if *budgetOverride > 0 {
		t.BudgetSec = *budgetOverride
	}
	nw := *workers
	if nw <= 0 {
		nw = runtime.NumCPU()
		if nw > 16 {
			nw = 16
		}
	}
	if nw > t.Runs {
		nw = t.Runs
	}
	if nw < 1 {
		nw = 1
	}
	start := time.Now()
	batch := batchSeed()
	fmt.Printf("simcheck property=%s tier=%s batch_seed=%d runs<=%d budget=%ds workers=%d\n", p.ID, *tier, batch, t.Runs, t.BudgetSec, nw)
	self, _ := os.Executable()

	var mu sync.Mutex
	agg := kernel.Stats{}
	fps := map[string]bool{}
	var evals int64
	runs := 0
	var samples []interface{}
	type found struct {
		v     *kernel.Violation
		trace string
		seed  uint64
	}
	var founds []found
	infra := ""
	var wg sync.WaitGroup
	for w := 0; w < nw; w++ {
		wg.Add(1)
		go func(w int) {
			defer wg.Done()
			a := []string{"worker", "-prop", p.ID, "-tier", *tier, "-w", strconv.Itoa(w), "-nw", strconv.Itoa(nw), "-runs", strconv.Itoa(t.Runs), "-budget", strconv.Itoa(t.BudgetSec)}
			if w == 0 {
				a = append(a, "-enum")
			}
			cmd := exec.Command(self, a...)
			cmd.Env = os.Environ()
			cmd.Stderr = os.Stderr
			stdout, err := cmd.StdoutPipe()
			if err != nil {
				mu.Lock()
				infra = err.Error()
				mu.Unlock()
				return
			}
			if err := cmd.Start(); err != nil {
				mu.Lock()
				infra = err.Error()
				mu.Unlock()
				return
			}
			// watchdog: budget + generous slack for minimisation
			timer := time.AfterFunc(time.Duration(t.BudgetSec)*time.Second+10*time.Minute, func() {
				mu.Lock()
				infra = "watchdog: worker exceeded its time limit"
				mu.Unlock()
				_ = cmd.Process.Kill()
			})
			defer timer.Stop()
			sc := bufio.NewScanner(stdout)
			sc.Buffer(make([]byte, 1<<20), 1<<28)
			done := false
			for sc.Scan() {
				var l workerLine
				if err := json.Unmarshal(sc.Bytes(), &l); err != nil {
					continue
				}
				mu.Lock()
				switch l.Kind {
				case "run":
					runs++
					evals += l.Evals
					if l.Nontriv && l.FP != "" {
						fps[l.FP] = true
					}
					for k, v := range l.Stats {
						agg.Add(k, v)
					}
					if l.Sample != nil && len(samples) < 3 {
						samples = append(samples, l.Sample)
					}
					for _, v := range l.Viol {
						founds = append(founds, found{v, l.TraceFile, l.Seed})
					}
				case "infra":
					infra = fmt.Sprintf("seed %d: %s", l.Seed, l.Err)
				case "done":
					done = true
				}
				mu.Unlock()
			}
			err = cmd.Wait()
			if (err != nil || !done) && infra == "" {
				mu.Lock()
				infra = fmt.Sprintf("worker %d ended abnormally: %v", w, err)
				mu.Unlock()
			}
		}(w)
	}
	wg.Wait()
	wall := time.Since(start).Seconds()
	if infra != "" {
		fmt.Println("INFRASTRUCTURE-ERROR:", infra)
		return 2
	}

	// classify violations
	known := loadKnown()
	knownSeen := map[string]*knownEntry{}
	newBySig := map[string]found{}
	for _, f := range founds {
		if e := known.match(f.v); e != nil {
			knownSeen[e.Property+"|"+e.Signature] = e
			continue
		}
		key := f.v.Property + "|" + f.v.Check + "|" + f.v.Signature
		if _, ok := newBySig[key]; !ok {
			newBySig[key] = f
		} else if f.trace != "" {
			_ = os.Remove(f.trace) // one replay file per distinct violation
		}
	}
	// canned replays of known findings that random search did not hit
	for i := range known.entries {
		e := &known.entries[i]
		if e.Status != "known" || e.Property != p.ID || e.Replay == "" {
			continue
		}
		if _, ok := knownSeen[e.Property+"|"+e.Signature]; ok {
			continue
		}
		path := e.Replay
		if !filepath.IsAbs(path) {
			path = filepath.Join(verifDir(), path)
		}
		if tr, err := loadTrace(path); err == nil && p.Replay != nil {
			o := safeRun(func() *Outcome { return p.Replay(tr) })
			for _, v := range o.Violations {
				if known.match(v) == e {
					knownSeen[e.Property+"|"+e.Signature] = e
				}
			}
		}
	}
	keys := make([]string, 0, len(knownSeen))
	for k := range knownSeen {
		keys = append(keys, k)
	}
	sort.Strings(keys)
	for _, k := range keys {
		e := knownSeen[k]
		fmt.Printf("KNOWN-FINDING: property=%s %s [%s]\n", e.Property, e.What, e.Signature)
	}
	exit := 0
	nviol := 0
	nkeys := make([]string, 0, len(newBySig))
	for k := range newBySig {
		nkeys = append(nkeys, k)
	}
	sort.Strings(nkeys)
	for _, k := range nkeys {
		f := newBySig[k]
		// replay the minimised file in a fresh process: it must fail the same way
		if f.trace == "" {
			fmt.Printf("INFRASTRUCTURE-ERROR: violation without replay file: %s\n", f.v)
			return 2
		}
		out, err := exec.Command(self, "replay", f.trace).CombinedOutput()
		if err == nil || !strings.Contains(string(out), "VIOLATION property=") {
			fmt.Printf("INFRASTRUCTURE-ERROR: replay of %s did not reproduce %s\n%s\n", f.trace, f.v, string(out))
			return 2
		}
		nviol++
		exit = 1
		fmt.Printf("violation: %s\n", f.v)
		// the line names the property this check decides; the oracle that fired (it may belong to a sibling
		// property whose invariant this check also watches) is in the "violation:" line above
		fmt.Printf("VIOLATION property=%s replay=%s\n", p.ID, f.trace)
	}

	// evidence
	faults := map[string]int64{}
	probes := map[string]int64{}
	other := map[string]int64{}
	for k, v := range agg.Counters {
		switch {
		case strings.HasPrefix(k, "fault."):
			faults[strings.TrimPrefix(k, "fault.")] = v
		case strings.HasPrefix(k, "probe."):
			probes[strings.TrimPrefix(k, "probe.")] = v
		default:
			other[k] = v
		}
	}
	simSeconds := float64(agg.Counters["sim_ms"]) / 1e3
	if len(samples) == 0 {
		samples = append(samples, map[string]string{"note": "no sample emitted"})
	}
	cov := map[string]interface{}{
		"evaluations":          evals,
		"distinct_nontrivial":  len(fps),
		"rule":                 p.Rule,
		"samples":              samples,
		"runs":                 runs,
		"runs_per_hour":        float64(runs) / wall * 3600,
		"simulated_seconds":    simSeconds,
		"faults_fired":         faults,
		"probes_hit":           probes,
		"counters":             other,
		"fault_kinds":          p.FaultKinds,
		"components_real_code": p.Real,
		"components_stubbed":   p.Stub,
		"known_findings_seen":  keys,
		"exhaustive":           false,
	}
	var gaps []string
	for k, v := range probes {
		if v == 0 {
			gaps = append(gaps, k)
		}
	}
	sort.Strings(gaps)
	cov["probe_gaps"] = gaps
	if p.Assumes == nil {
		p.Assumes = []string{}
	}
	ev := evidence{PropertyID: p.ID, Tier: *tier, Seed: int64(batch), Level: p.Level, Coverage: cov, Assumptions: p.Assumes, WallS: wall, Violations: nviol}
	bz, _ := json.MarshalIndent(ev, "", " ")
	_ = os.MkdirAll(filepath.Join(verifDir(), "evidence"), 0o755)
	if err := os.WriteFile(filepath.Join(verifDir(), "evidence", p.ID+".json"), bz, 0o644); err != nil {
		fmt.Println("INFRASTRUCTURE-ERROR: cannot write evidence:", err)
		return 2
	}
	fmt.Printf("done property=%s runs=%d distinct_nontrivial=%d evaluations=%d violations=%d known=%d wall=%.1fs sim_time=%.0fs\n",
		p.ID, runs, len(fps), evals, nviol, len(keys), wall, simSeconds)
	if runs == 0 {
		fmt.Println("INFRASTRUCTURE-ERROR: no run executed")
		return 2
	}
	return exit
}

func loadTrace(path string) (*kernel.Trace, error) {
	bz, err := os.ReadFile(path)
	if err != nil {
		return nil, err
	}
	var tr kernel.Trace
	if err := json.Unmarshal(bz, &tr); err != nil {
		return nil, err
	}
	return &tr, nil
}

func cmdReplay(args []string) int {
	if len(args) < 1 {
		fmt.Fprintln(os.Stderr, "usage: simcheck replay <file>")
		return 2
	}
	tr, err := loadTrace(args[0])
	if err != nil {
		fmt.Println("INFRASTRUCTURE-ERROR:", err)
		return 2
	}
	id := tr.Property
	if tr.Profile != "" && registry[tr.Profile] != nil {
		id = tr.Profile
	}
	p := registry[id]
	if p == nil || p.Replay == nil {
		fmt.Println("INFRASTRUCTURE-ERROR: no replay for property", id)
		return 2
	}
	if os.Getenv("VERIF_DEBUG") != "" {
		kernel.KeepLogs = true
	}
	o := safeRun(func() *Outcome { return p.Replay(tr) })
	if os.Getenv("VERIF_DEBUG") != "" {
		for _, l := range kernel.GlobalLog {
			fmt.Println(l)
		}
	}
	if o.InfraErr != nil {
		fmt.Println("INFRASTRUCTURE-ERROR:", o.InfraErr)
		return 2
	}
	if len(o.Violations) == 0 {
		fmt.Println("replay: no violation")
		return 0
	}
	known := loadKnown()
	exit := 0
	for _, v := range o.Violations {
		fmt.Println("violation:", v)
		if e := known.match(v); e != nil {
			fmt.Printf("KNOWN-FINDING: property=%s %s [%s]\n", e.Property, e.What, e.Signature)
			continue
		}
		fmt.Printf("VIOLATION property=%s replay=%s\n", id, args[0])
		exit = 1
	}
	return exit
}
