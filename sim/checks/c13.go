package checks

import (
	"bytes"
	"fmt"
	"sort"
	"strings"
	"time"

	disttypes "github.com/chain4energy/c4e-chain/x/cfedistributor/types"
	mintertypes "github.com/chain4energy/c4e-chain/x/cfeminter/types"
	vtypes "github.com/chain4energy/c4e-chain/x/cfevesting/types"
	sdk "github.com/cosmos/cosmos-sdk/types"
	abci "github.com/tendermint/tendermint/abci/types"

	"verifsim/kernel"
)

// C13 — only governance changes parameters, and stored parameters stay valid.

func init() {
	Register(&Prop{
		ID:    "C13",
		Level: "exploration",
		Rule: "one run = a world with a generated minter and distributor configuration and vesting pools appearing over time, 15-40 blocks of parameter-update traffic over all seven update messages with valid, invalid and partially valid payloads " +
			"through five routes (attacker tx with own authority, attacker tx naming the gov authority, proposal with wrong authority, real x/gov proposal with votes executed when the simulated voting period ends, direct handler call with any authority string); " +
			"after every message and every EndBlock: parameters changed only by a direct call or a passed proposal carrying the exact gov authority, stored parameters pass Validate(), the minter's current period exists, the vesting denom is unchanged while pools exist, rejected updates leave the bytes identical, an update accepted from governance through the message router or the message server is stored exactly as given (periods in any order; what the message does not carry stays). " +
			"non-trivial = at least one proposal passed and changed parameters and at least one update was refused; distinct = hash of (route, message type, outcome) set",
		Quick:      Tier{Runs: 1500, BudgetSec: 50},
		Thorough:   Tier{Runs: 25000, BudgetSec: 780},
		RunSeed:    c13RunSeed,
		Replay:     c13Replay,
		Real:       append([]string{"x/gov v1 (submit, deposit, vote, tally, execution through the message router)"}, distReal...),
		Stub:       distStub,
		Assumes:    []string{"the genesis delegator holds all bonded stake, so its vote decides", "voting period is 30 simulated seconds"},
		FaultKinds: []string{"F-gov (updates executed by real governance at arbitrary points)", "F-malformed (invalid and partially valid payloads, every authority string)", "F-order", "F-crash (every fifth run: death before / inside Commit, restart, re-execution with proposals in flight)", "F-simulate + F-rollback (every fifth run: a quarter of the transactions are only handed to the Simulate service, or are a governance execution [parameter update, failing message] that x/gov drops as a whole; nothing of either may stick)"},
	})
}

type paramSnap struct {
	minter, dist, vesting []byte
	vdenom                string
	pools                 int
}

func takeParamSnap(c *kernel.Chain) paramSnap {
	ctx := c.Ctx()
	cdc := kernel.Enc().Marshaler
	mp := c.MinterParams()
	dp := c.DistParams()
	vp := c.VestingParams()
	return paramSnap{minter: cdc.MustMarshal(&mp), dist: cdc.MustMarshal(&dp), vesting: cdc.MustMarshal(&vp), vdenom: vp.Denom,
		pools: len(c.App.CfevestingKeeper.GetAllAccountVestingPools(ctx))}
}

type c13Monitor struct {
	kernel.NopMonitor
	pre           paramSnap
	preEnd        paramSnap
	lastCommitted paramSnap
	evals         int64
	classes       map[string]bool
}

func (m *c13Monitor) validate(r *kernel.Run, where string) {
	c := r.Chain
	ctx := c.Ctx()
	m.evals++
	mp := c.MinterParams()
	if err := mp.Validate(); err != nil {
		r.Violate("C13", "stored-valid", "stored-minter-params-invalid", "%s: stored minter parameters fail validation: %v", where, err)
	}
	st := c.App.CfeminterKeeper.GetMinterState(ctx)
	found := false
	for _, mm := range mp.Minters {
		if mm != nil && mm.SequenceId == st.SequenceId {
			found = true
		}
	}
	if !found {
		r.Violate("C13", "stored-valid", "current-period-missing", "%s: the minter's current period %d is not in the stored configuration", where, st.SequenceId)
	}
	dp := c.DistParams()
	if err := dp.Validate(); err != nil {
		r.Violate("C13", "stored-valid", "stored-distributor-params-invalid", "%s: stored distributor parameters fail validation: %v", where, err)
	}
	vp := c.VestingParams()
	if err := vp.Validate(); err != nil {
		r.Violate("C13", "stored-valid", "stored-vesting-params-invalid", "%s: stored vesting parameters fail validation: %v", where, err)
	}
}

func (m *c13Monitor) Init(r *kernel.Run) {
	m.validate(r, "after genesis")
	m.lastCommitted = takeParamSnap(r.Chain)
}

func (m *c13Monitor) BeforeTx(r *kernel.Run, tx *kernel.Tx, msgs []sdk.Msg) {
	m.pre = takeParamSnap(r.Chain)
}

func updateAuthority(msg sdk.Msg) (string, bool) {
	type hasAuth interface{ GetAuthority() string }
	if !strings.Contains(sdk.MsgTypeURL(msg), ".MsgUpdate") {
		return "", false
	}
	if a, ok := msg.(hasAuth); ok {
		return a.GetAuthority(), true
	}
	return "", false
}

func (m *c13Monitor) AfterTx(r *kernel.Run, tx *kernel.Tx, msgs []sdk.Msg, res *kernel.TxResult) {
	post := takeParamSnap(r.Chain)
	changed := !bytes.Equal(m.pre.minter, post.minter) || !bytes.Equal(m.pre.dist, post.dist) || !bytes.Equal(m.pre.vesting, post.vesting)
	m.evals++
	typ := "other"
	auth := ""
	isUpdate := false
	if len(msgs) == 1 {
		if a, ok := updateAuthority(msgs[0]); ok {
			isUpdate, auth = true, a
			u := sdk.MsgTypeURL(msgs[0])
			typ = u[strings.LastIndex(u, "chain.")+6:]
		}
	}
	outcome := "refused"
	if res.OK {
		outcome = "ok"
	}
	if isUpdate {
		m.classes[tx.Note+"/"+typ+"/"+outcome] = true
		if !res.OK {
			r.Stats.Inc("probe.update_refused")
		}
	}
	if changed {
		legit := isUpdate && (tx.Route == "direct" || tx.Route == "srv") && auth == gov() && res.OK
		if !legit {
			r.Violate("C13", "authority", "params-changed-without-governance:"+tx.Note, "parameters changed by %s (route %q, authority %q, ok=%v)", typ, tx.Route, auth, res.OK)
		} else {
			r.Stats.Inc("probe.params_changed_by_direct_gov_call")
		}
		if !res.OK {
			r.Violate("C13", "rejected-intact", "rejected-update-changed-params", "a refused %s changed the stored parameters", typ)
		}
	}
	if isUpdate && (tx.Route == "direct" || tx.Route == "srv") && auth == gov() && res.OK {
		// what governance accepted is what is stored afterwards: nothing of the payload is dropped or replaced
		m.evals++
		if what := appliedAsGiven(r.Chain, msgs[0], m.pre); what != "" {
			r.Violate("C13", "applied-as-given", "accepted-update-stored-differently:"+typ, "%s was accepted, but %s", typ, what)
		} else {
			r.Stats.Inc("probe.accepted_update_stored_as_given")
		}
	}
	if isUpdate && (tx.Route == "direct" || tx.Route == "srv") && auth != gov() && res.OK {
		r.Violate("C13", "authority", "handler-accepted-wrong-authority", "%s accepted authority %q", typ, auth)
	}
	if m.pre.vdenom != post.vdenom && m.pre.pools > 0 {
		r.Violate("C13", "denom-locked", "vesting-denom-changed-with-pools", "vesting denom changed from %s to %s while %d owners have pools", m.pre.vdenom, post.vdenom, m.pre.pools)
	}
	m.validate(r, "after "+typ)
	m.pre = post // base line for the proposals executed in this block's EndBlock
}

func (m *c13Monitor) AfterBegin(r *kernel.Run, _ abci.ResponseBeginBlock) {
	if r.Chain.Halted != nil {
		return
	}
	m.preEnd = paramSnap{}
}

func (m *c13Monitor) AfterEnd(r *kernel.Run, resp abci.ResponseEndBlock) {
	if r.Chain.Halted != nil {
		return
	}
	// proposals execute in EndBlock: compare with the state after the last transaction of the block
	post := takeParamSnap(r.Chain)
	base := m.pre
	if base.minter == nil {
		base = m.lastCommitted
	}
	changed := !bytes.Equal(base.minter, post.minter) || !bytes.Equal(base.dist, post.dist) || !bytes.Equal(base.vesting, post.vesting)
	passed := false
	for _, ev := range kernel.EventAttrs(resp.Events, "active_proposal") {
		if ev["proposal_result"] == "proposal_passed" {
			passed = true
			r.Stats.Inc("probe.proposal_passed")
		} else {
			r.Stats.Inc("probe.proposal_not_passed_" + ev["proposal_result"])
		}
	}
	m.evals++
	if changed {
		if !passed {
			r.Violate("C13", "authority", "params-changed-in-endblock-without-passed-proposal", "parameters changed during EndBlock although no proposal passed")
		} else {
			r.Stats.Inc("probe.params_changed_by_passed_proposal")
		}
		if base.vdenom != post.vdenom && base.pools > 0 {
			r.Violate("C13", "denom-locked", "vesting-denom-changed-with-pools", "a proposal changed the vesting denom from %s to %s while %d owners have pools", base.vdenom, post.vdenom, base.pools)
		}
	}
	m.validate(r, "after EndBlock")
	m.pre = paramSnap{}
	m.lastCommitted = post
}

func c13World(seed uint64) (*kernel.Trace, *genSource) {
	r := kernel.NewRng(seed)
	spec, w := buildVestingWorld(r.Fork(1), vestingWorldOpts{MaxAmtExp: 18, GenesisPools: r.Bool(), GenesisVAccs: false})
	spec.VotingPeriodSec = 30
	spec.Balances = append(spec.Balances, kernel.BalSpec{Actor: spec.Clients[0], Coins: "100000" + BondDenom})
	distCfg := DistGenCfg{MaxSubs: 4, MultiSource: true, ShareToMain: true, IDCollisions: true, AllowBurn: true}
	for i := 2; i < len(spec.Clients); i++ {
		distCfg.BaseAddrs = append(distCfg.BaseAddrs, kernel.ActorBech(spec.Clients[i]))
	}
	dp, err := GenDistParams(r.Fork(2), distCfg)
	if err == nil {
		spec.Distributor = DistGenesisJSON(dp)
	}
	mcfg := MinterGenCfg{MaxPeriods: 4, MaxAmountExp: 24, MaxStepsHint: 200, Horizon: 2000 * 3600 * 1e9, AllowNone: true}
	if r.P(0.5) {
		// short schedules: the run walks through several periods, so updates meet later current periods
		mcfg.Horizon = time.Duration(r.Range(40, 600)) * time.Second
	}
	if mp, err := GenMinterParams(r.Fork(3), spec.GenesisTime, BondDenom, mcfg); err == nil {
		spec.Minter = MinterGenesisJSON(mp, spec.GenesisTime)
	}
	g := &govWorld{Voter: spec.Clients[0], Attackers: spec.Clients[1:], DistCfg: distCfg, MinterCfg: mcfg, SaneMinter: true}
	rr := r.Fork(4)
	gens := []TxGen{g.genGovTx, g.genGovTx, g.genGovTx, w.genCreatePool, w.genWithdraw}
	src := &genSource{rng: rr, nBlocks: rr.Range(15, 40), MaxTxs: 4, PTx: 0.9, TxGens: gens,
		Cadence: func(_ *kernel.Run, x *kernel.Rng) int64 {
			if x.Intn(6) == 0 {
				return int64(31e9)
			}
			return int64(5e9) + x.I64n(2e9)
		}}
	if seed%5 == 3 {
		simOverlay(src, spec)
	}
	if seed%5 == 2 {
		src.CrashP = 0.12 // proposals in their voting period and half-applied parameter updates must survive a restart
	}
	return &kernel.Trace{Profile: "C13", Seed: seed, Spec: *spec}, src
}

func c13RunSeed(seed uint64, tier string) *Outcome {
	tr, src := c13World(seed)
	return c13Exec(tr, src)
}
func c13Replay(tr *kernel.Trace) *Outcome { return c13Exec(tr, nil) }

func c13Exec(tr *kernel.Trace, src kernel.Source) *Outcome {
	mon := &c13Monitor{classes: map[string]bool{}}
	_, o := execTrace(tr, src, []kernel.Monitor{mon, haltMonitor{}}, false)
	o.Evals = mon.evals
	o.Nontrivial = o.Stats.Counters["probe.params_changed_by_passed_proposal"] > 0 && o.Stats.Counters["probe.update_refused"] > 0
	cl := ""
	for _, k := range kernel.SortedKeys(mon.classes) {
		cl += k + ";"
	}
	o.Fingerprint = fingerprint(cl, statsClasses(&o.Stats, "probe."), len(o.Violations) > 0)
	if o.Trace != nil {
		o.Sample = map[string]interface{}{"seed": o.Trace.Seed, "blocks": len(o.Trace.Blocks), "route/type/outcome classes": cl}
	}
	return o
}

var _ = mintertypes.ModuleName

// appliedAsGiven compares the parameters stored after an accepted update with the payload of the message (minter
// periods in any order; everything the message does not carry must be what was stored before). "" = as given.
func appliedAsGiven(c *kernel.Chain, msg sdk.Msg, pre paramSnap) string {
	cdc := kernel.Enc().Marshaler
	mintersKey := func(ms []*mintertypes.Minter) string {
		var parts []string
		for _, m := range ms {
			if m != nil {
				parts = append(parts, fmt.Sprintf("%010d:%x", m.SequenceId, cdc.MustMarshal(m)))
			}
		}
		sort.Strings(parts)
		return strings.Join(parts, "|")
	}
	subKey := func(s *disttypes.SubDistributor) string { return fmt.Sprintf("%x", cdc.MustMarshal(s)) }
	switch t := msg.(type) {
	case *mintertypes.MsgUpdateMintersParams:
		st := c.MinterParams()
		var before mintertypes.Params
		cdc.MustUnmarshal(pre.minter, &before)
		if !st.StartTime.Equal(t.StartTime) {
			return fmt.Sprintf("the stored start time is %s, the message says %s", st.StartTime.UTC().Format(time.RFC3339Nano), t.StartTime.UTC().Format(time.RFC3339Nano))
		}
		if mintersKey(st.Minters) != mintersKey(t.Minters) {
			return "the stored periods differ from the periods of the message"
		}
		if st.MintDenom != before.MintDenom {
			return fmt.Sprintf("the mint denomination changed from %s to %s although the message carries none", before.MintDenom, st.MintDenom)
		}
	case *mintertypes.MsgUpdateParams:
		st := c.MinterParams()
		if !st.StartTime.Equal(t.StartTime) {
			return fmt.Sprintf("the stored start time is %s, the message says %s", st.StartTime.UTC().Format(time.RFC3339Nano), t.StartTime.UTC().Format(time.RFC3339Nano))
		}
		if mintersKey(st.Minters) != mintersKey(t.Minters) {
			return "the stored periods differ from the periods of the message"
		}
		if st.MintDenom != t.MintDenom {
			return fmt.Sprintf("the stored mint denomination is %s, the message says %s", st.MintDenom, t.MintDenom)
		}
	case *disttypes.MsgUpdateParams:
		st := c.DistParams()
		if len(st.SubDistributors) != len(t.SubDistributors) {
			return fmt.Sprintf("%d sub-distributors are stored, the message has %d", len(st.SubDistributors), len(t.SubDistributors))
		}
		for i := range t.SubDistributors {
			if subKey(&st.SubDistributors[i]) != subKey(&t.SubDistributors[i]) {
				return fmt.Sprintf("stored sub-distributor %d (%s) differs from the message", i, st.SubDistributors[i].Name)
			}
		}
	case *disttypes.MsgUpdateSubDistributorParam:
		if t.SubDistributor == nil {
			return ""
		}
		for _, s := range c.DistParams().SubDistributors {
			s := s
			if s.Name == t.SubDistributor.Name {
				if subKey(&s) != subKey(t.SubDistributor) {
					return fmt.Sprintf("the stored sub-distributor %s differs from the message", s.Name)
				}
				return ""
			}
		}
		return fmt.Sprintf("no sub-distributor %s is stored", t.SubDistributor.Name)
	case *disttypes.MsgUpdateSubDistributorBurnShareParam:
		for _, s := range c.DistParams().SubDistributors {
			if s.Name == t.SubDistributorName && !s.Destinations.BurnShare.Equal(t.BurnShare) {
				return fmt.Sprintf("the stored burn share of %s is %s, the message says %s", s.Name, s.Destinations.BurnShare, t.BurnShare)
			}
		}
	case *disttypes.MsgUpdateSubDistributorDestinationShareParam:
		var before disttypes.Params
		cdc.MustUnmarshal(pre.dist, &before)
		prev := map[string]string{}
		for i := range before.SubDistributors {
			prev[before.SubDistributors[i].Name] = subKey(&before.SubDistributors[i])
		}
		named := false
		for _, s := range c.DistParams().SubDistributors {
			s := s
			if s.Name != t.SubDistributorName {
				// the message names one sub-distributor: no other may change
				if was, ok := prev[s.Name]; ok && was != subKey(&s) {
					return fmt.Sprintf("it names sub-distributor %s, and sub-distributor %s was changed", t.SubDistributorName, s.Name)
				}
				continue
			}
			named = true
			found := false
			for _, sh := range s.Destinations.Shares {
				if sh != nil && sh.Name == t.DestinationName {
					found = true
					if !sh.Share.Equal(t.Share) {
						return fmt.Sprintf("the stored share %s/%s is %s, the message says %s", s.Name, sh.Name, sh.Share, t.Share)
					}
				}
			}
			if !found {
				return fmt.Sprintf("sub-distributor %s has no destination %s", s.Name, t.DestinationName)
			}
		}
		if !named {
			return fmt.Sprintf("no sub-distributor %s is stored", t.SubDistributorName)
		}
	case *vtypes.MsgUpdateDenomParam:
		if d := c.VestingParams().Denom; d != t.Denom {
			return fmt.Sprintf("the stored vesting denomination is %s, the message says %s", d, t.Denom)
		}
	}
	return ""
}
