package checks

import (
	"encoding/base64"
	"fmt"
	"github.com/cosmos/cosmos-sdk/x/authz"
	"math"
	"math/big"
	"strings"
	"time"

	appparams "github.com/chain4energy/c4e-chain/app/params"
	disttypes "github.com/chain4energy/c4e-chain/x/cfedistributor/types"
	mintertypes "github.com/chain4energy/c4e-chain/x/cfeminter/types"
	sigtypes "github.com/chain4energy/c4e-chain/x/cfesignature/types"
	vtypes "github.com/chain4energy/c4e-chain/x/cfevesting/types"
	codectypes "github.com/cosmos/cosmos-sdk/codec/types"
	sdk "github.com/cosmos/cosmos-sdk/types"
	banktypes "github.com/cosmos/cosmos-sdk/x/bank/types"
	abci "github.com/tendermint/tendermint/abci/types"

	"verifsim/kernel"
)

// C20 — no message or query of the custom modules panics on any input.
//
// Adversarial field values for every message and query type of the four modules, against states with and without
// the referenced objects; messages travel through DeliverTx (ValidateBasic -> ante -> handler), the message
// router (direct route) and, for cfesignature, the module's message server; queries through ABCI Query.

func init() {
	Register(&Prop{
		ID:    "C20",
		Level: "exploration",
		Rule: "one run = a vesting world (pools, vesting accounts, signature records appear as the run proceeds) driven for 8-20 blocks with 3-8 adversarial messages per block (boundary values per field: empty, nil Int/Dec, negative, 2^63, 1e36, 1e77, " +
			"malformed bech32, empty/duplicate/unsorted denoms, nil nested messages, unset Any, unknown names) over all 17 message types and three routes, plus 3-8 adversarial queries per block over all 18 query methods and raw garbage requests; " +
			"a violation is a panic in DeliverTx (recovered by baseapp), in ValidateBasic, in a handler whose ValidateBasic passed, or in a query. non-trivial = at least one message reached its handler and one was rejected; " +
			"distinct = hash of (message type, route, outcome class) set and query method set",
		Quick:      Tier{Runs: 1500, BudgetSec: 50},
		Thorough:   Tier{Runs: 30000, BudgetSec: 780},
		RunSeed:    c20RunSeed,
		Replay:     c20Replay,
		Real:       append([]string{"baseapp tx decoding, ValidateBasic, ante handlers, message routing, panic recovery", "gRPC query router behind ABCI Query", "x/cfesignature message server and queries"}, vestReal...),
		Stub:       vestStub,
		Assumes:    []string{"a handler panic on an input that its own ValidateBasic rejects is counted as information only (gov/authz/group validate before routing)", "GetSigners on a malformed address is not called directly (SDK convention)", "out-of-gas is not a panic"},
		FaultKinds: []string{"F-malformed (adversarial field values)", "F-order (messages against states with and without the referenced objects)"},
	})
}

type advGen struct {
	w   *vestingWorld
	rng *kernel.Rng
}

func (g *advGen) addr() string {
	r := g.rng
	switch r.Intn(12) {
	case 0:
		return ""
	case 1:
		return "xyz"
	case 2:
		return "cosmos1qypqxpq9qcrsszg2pvxq6rs0zqg3yyc5lzv7xu"
	case 3:
		return strings.Repeat("c4e1", 200)
	case 4:
		return kernel.ModuleAddr(vtypes.ModuleName).String()
	case 5:
		// a brand-new address whose owner keeps acting later (it may become a vesting account through this very message)
		n := g.w.fresh()
		g.w.VestActors = append(g.w.VestActors, n)
		return kernel.ActorBech(n)
	case 6:
		if len(g.w.VestActors) > 0 {
			return kernel.ActorBech(g.w.VestActors[r.Intn(len(g.w.VestActors))])
		}
	}
	return kernel.ActorBech(g.w.Clients[r.Intn(len(g.w.Clients))])
}

func (g *advGen) client() string { return g.w.Clients[g.rng.Intn(len(g.w.Clients))] }

func bigPow10(e int64) *big.Int { return new(big.Int).Exp(big.NewInt(10), big.NewInt(e), nil) }

func (g *advGen) intv() sdk.Int {
	switch g.rng.Intn(10) {
	case 0:
		return sdk.Int{}
	case 1:
		return sdk.ZeroInt()
	case 2:
		return sdk.NewInt(-1)
	case 3:
		return sdk.NewIntFromUint64(1 << 63)
	case 4:
		return sdk.NewIntFromBigInt(bigPow10(36))
	case 5:
		return sdk.NewIntFromBigInt(bigPow10(76))
	case 6:
		return sdk.NewInt(math.MaxInt64)
	}
	return sdk.NewInt(int64(g.rng.Range(1, 100000)))
}

func (g *advGen) dec() sdk.Dec {
	switch g.rng.Intn(9) {
	case 0:
		return sdk.Dec{}
	case 1:
		return sdk.ZeroDec()
	case 2:
		return sdk.NewDec(-1)
	case 3:
		return sdk.OneDec()
	case 4:
		return sdk.NewDecFromBigInt(bigPow10(58))
	case 5:
		return sdk.NewDecWithPrec(1, 18)
	}
	return sdk.NewDecWithPrec(int64(g.rng.Range(1, 99)), 2)
}

func (g *advGen) denom() string {
	switch g.rng.Intn(8) {
	case 0:
		return ""
	case 1:
		return "nosuchdenom"
	case 2:
		return "x"
	case 3:
		return "UPPER/CASE!"
	}
	return append([]string{BondDenom}, g.w.ExtraDenoms...)[g.rng.Intn(1+len(g.w.ExtraDenoms))]
}

func (g *advGen) coins() sdk.Coins {
	switch g.rng.Intn(8) {
	case 0:
		return nil
	case 1:
		return sdk.Coins{}
	}
	n := g.rng.Range(1, 3)
	var cs sdk.Coins
	for i := 0; i < n; i++ {
		cs = append(cs, sdk.Coin{Denom: g.denom(), Amount: g.intv()})
	}
	return cs
}

func (g *advGen) duration() time.Duration {
	switch g.rng.Intn(7) {
	case 0:
		return 0
	case 1:
		return -time.Second
	case 2:
		return 1
	case 3:
		return time.Duration(math.MaxInt64)
	case 4:
		return time.Duration(math.MinInt64)
	}
	return time.Duration(g.rng.Range(1, 100000)) * time.Second
}

func (g *advGen) timev(now time.Time) time.Time {
	switch g.rng.Intn(7) {
	case 0:
		return time.Time{}
	case 1:
		return time.Unix(0, 0).UTC()
	case 2:
		return time.Date(9999, 12, 31, 23, 59, 59, 0, time.UTC)
	case 3:
		return now.Add(-time.Hour)
	}
	return now.Add(time.Duration(g.rng.Range(-100000, 1000000)) * time.Second)
}

func (g *advGen) i64(now time.Time) int64 {
	switch g.rng.Intn(6) {
	case 0:
		return 0
	case 1:
		return -1
	case 2:
		return math.MaxInt64
	case 3:
		return math.MinInt64
	}
	return now.Unix() + int64(g.rng.Range(-10000, 100000))
}

func (g *advGen) name(cands ...string) string {
	switch g.rng.Intn(6) {
	case 0:
		return ""
	case 1:
		return "no-such-name"
	case 2:
		return strings.Repeat("n", 5000)
	}
	if len(cands) > 0 {
		return cands[g.rng.Intn(len(cands))]
	}
	return fmt.Sprintf("p%d", g.rng.Range(1, 20))
}

func (g *advGen) authority() string {
	switch g.rng.Intn(5) {
	case 0:
		return ""
	case 1:
		return kernel.ActorBech(g.client())
	case 2:
		return "gov"
	}
	return appparams.GetAuthority()
}

func (g *advGen) account() disttypes.Account {
	types := []string{disttypes.Main, disttypes.InternalAccount, disttypes.ModuleAccount, disttypes.BaseAccount, "", "NOPE"}
	ids := []string{"", "int1", "fee_collector", "no_such_module", kernel.ActorBech(g.client()), "not-bech32", disttypes.DistributorMainAccount}
	return disttypes.Account{Type: types[g.rng.Intn(len(types))], Id: ids[g.rng.Intn(len(ids))]}
}

func (g *advGen) subDistributor() disttypes.SubDistributor {
	sd := disttypes.SubDistributor{Name: g.name("sd1", "sink", "sd2")}
	ns := g.rng.Range(0, 3)
	for i := 0; i < ns; i++ {
		if g.rng.Intn(6) == 0 {
			sd.Sources = append(sd.Sources, nil)
			continue
		}
		a := g.account()
		sd.Sources = append(sd.Sources, &a)
	}
	sd.Destinations.PrimaryShare = g.account()
	sd.Destinations.BurnShare = g.dec()
	nsh := g.rng.Range(0, 3)
	for i := 0; i < nsh; i++ {
		if g.rng.Intn(6) == 0 {
			sd.Destinations.Shares = append(sd.Destinations.Shares, nil)
			continue
		}
		sd.Destinations.Shares = append(sd.Destinations.Shares, &disttypes.DestinationShare{Name: g.name("share1", "share2"), Share: g.dec(), Destination: g.account()})
	}
	return sd
}

func (g *advGen) minters(now time.Time) []*mintertypes.Minter {
	n := g.rng.Range(0, 4)
	var out []*mintertypes.Minter
	for i := 0; i < n; i++ {
		if g.rng.Intn(7) == 0 {
			out = append(out, nil)
			continue
		}
		m := &mintertypes.Minter{SequenceId: uint32(g.rng.Range(0, 4))}
		if g.rng.P(0.7) {
			m.SequenceId = uint32(i + 1)
		}
		if g.rng.P(0.6) {
			t := g.timev(now)
			m.EndTime = &t
		}
		var cfg mintertypes.MinterConfigI
		switch g.rng.Intn(6) {
		case 0:
			cfg = &mintertypes.NoMinting{}
		case 1:
			cfg = &mintertypes.LinearMinting{Amount: g.intv()}
		case 2:
			cfg = &mintertypes.ExponentialStepMinting{Amount: g.intv(), AmountMultiplier: g.dec(), StepDuration: g.duration()}
		case 3:
			cfg = nil // unset Any
		default:
			cfg = &mintertypes.LinearMinting{Amount: sdk.NewInt(int64(g.rng.Range(0, 1000000)))}
		}
		if cfg != nil {
			any, err := codectypes.NewAnyWithValue(cfg)
			if err == nil {
				m.Config = any
			}
		} else if g.rng.Bool() {
			// an Any that resolves to a registered message of the wrong kind
			if any, err := codectypes.NewAnyWithValue(&banktypes.MsgSend{}); err == nil {
				m.Config = any
			}
		}
		out = append(out, m)
	}
	return out
}

// pemLike returns strings that look like certificates / JSON to the signature module.
func (g *advGen) sigJSON() string {
	switch g.rng.Intn(8) {
	case 0:
		return ""
	case 1:
		return "{not json"
	case 2:
		return `{"signature":1,"algorithm":null,"certificate":[]}`
	case 3:
		return `{"signature":"AAAA","algorithm":"ecdsaWithSha256"}`
	case 4:
		return `{"signature":"!!!notbase64","algorithm":"ecdsaWithSha256","certificate":"-----BEGIN CERTIFICATE-----\nAAAA\n-----END CERTIFICATE-----"}`
	case 5:
		return `{"signature":"AAAA","algorithm":"dsaWithSha256","certificate":"garbage"}`
	case 6:
		return `[1,2,3]`
	}
	switch g.rng.Intn(6) {
	case 0:
		return `{"signature":"AAAA","algorithm":"ecdsaWithSha256","certificate":""}`
	case 1:
		return `{"signature":"AAAA","algorithm":"ecdsaWithSha256","certificate":"   \n "}`
	case 2:
		return `{"signature":"","algorithm":"","certificate":""}`
	case 3:
		return `{"signature":"AAAA","algorithm":"sha256WithRsaEncryption","certificate":"-----BEGIN CERTIFICATE-----\n-----END CERTIFICATE-----"}`
	case 4:
		return sigJSONOf(sigRecord{Signature: "AAAA", Algorithm: "ecdsaWithSha256", Certificate: sigFixtureECDSA[0].CertPEM})
	}
	return `{"signature":"AAAA","algorithm":"sha256WithRsaEncryption","certificate":"-----BEGIN CERTIFICATE-----\nMIIB\n-----END CERTIFICATE-----"}`
}

// sigRef / sigAddr: small sets, so that stored records, published links and verification queries meet.
func (g *advGen) sigRef() string { return fmt.Sprintf("%064x", uint64(g.rng.Intn(3))+1) }
func (g *advGen) sigAddr() string {
	return kernel.ActorBech(g.w.Clients[g.rng.Intn(2)])
}

func (g *advGen) refID() string {
	switch g.rng.Intn(6) {
	case 0:
		return ""
	case 1:
		return "short"
	case 2:
		return strings.Repeat("z", 64)
	case 3:
		return strings.Repeat("a", 65)
	}
	return fmt.Sprintf("%064x", g.rng.U64())
}

// genMsg builds one adversarial message; returns the message, the natural signer and the route.
func (g *advGen) genMsg(r *kernel.Run) (sdk.Msg, string, string) {
	now := r.Chain.Now
	rng := g.rng
	signer := g.client()
	own := kernel.ActorBech(signer)
	pickOwner := func() string {
		if rng.P(0.7) {
			return own
		}
		return g.addr()
	}
	route := ""
	if rng.P(0.35) {
		route = "direct"
	}
	var poolNames []string
	for _, avp := range r.Chain.App.CfevestingKeeper.GetAllAccountVestingPools(r.Chain.Ctx()) {
		for _, p := range avp.VestingPools {
			poolNames = append(poolNames, p.Name)
		}
		if rng.P(0.3) {
			if a := g.w.actorOf(avp.Owner); a != "" {
				signer, own = a, avp.Owner
			}
		}
	}
	switch rng.Intn(17) {
	case 0:
		return &vtypes.MsgCreateVestingPool{Owner: pickOwner(), Name: g.name(), Amount: g.intv(), Duration: g.duration(), VestingType: g.name(g.w.VestingTypes...)}, signer, route
	case 1:
		return &vtypes.MsgSendToVestingAccount{Owner: pickOwner(), ToAddress: g.addr(), VestingPoolName: g.name(poolNames...), Amount: g.intv(), RestartVesting: rng.Bool()}, signer, route
	case 2:
		return &vtypes.MsgWithdrawAllAvailable{Owner: pickOwner()}, signer, route
	case 3:
		m := &vtypes.MsgCreateVestingAccount{FromAddress: pickOwner(), ToAddress: g.addr(), Amount: g.coins(), StartTime: g.i64(now), EndTime: g.i64(now)}
		if rng.Intn(8) == 0 {
			m.FromAddress = m.ToAddress // sender and recipient are the same address (possibly one that has no account)
		}
		return m, signer, route
	case 4:
		if len(g.w.VestActors) > 0 && rng.P(0.6) {
			signer = g.w.VestActors[rng.Intn(len(g.w.VestActors))]
			own = kernel.ActorBech(signer)
		}
		return &vtypes.MsgSplitVesting{FromAddress: pickOwner(), ToAddress: g.addr(), Amount: g.coins()}, signer, route
	case 5:
		if len(g.w.VestActors) > 0 && rng.P(0.6) {
			signer = g.w.VestActors[rng.Intn(len(g.w.VestActors))]
			own = kernel.ActorBech(signer)
		}
		return &vtypes.MsgMoveAvailableVesting{FromAddress: pickOwner(), ToAddress: g.addr()}, signer, route
	case 6:
		var ds []string
		for i := 0; i < rng.Range(0, 3); i++ {
			ds = append(ds, g.denom())
		}
		if len(g.w.VestActors) > 0 && rng.P(0.6) {
			signer = g.w.VestActors[rng.Intn(len(g.w.VestActors))]
			own = kernel.ActorBech(signer)
		}
		return &vtypes.MsgMoveAvailableVestingByDenoms{FromAddress: pickOwner(), ToAddress: g.addr(), Denoms: ds}, signer, route
	case 7:
		return &vtypes.MsgUpdateDenomParam{Authority: g.authority(), Denom: g.denom()}, signer, routeOr(rng, "direct")
	case 8:
		m := &mintertypes.MsgUpdateParams{Authority: g.authority(), MintDenom: g.denom(), StartTime: g.timev(now), Minters: g.minters(now)}
		if !minterParamsSane(mintertypes.Params{MintDenom: m.MintDenom, StartTime: m.StartTime, Minters: m.Minters}) && m.Authority == appparams.GetAuthority() {
			m.Authority = kernel.ActorBech(signer) // outside the magnitudes C10 promises anything for: must not be applied
		}
		return m, signer, routeOr(rng, "direct")
	case 9:
		m := &mintertypes.MsgUpdateMintersParams{Authority: g.authority(), StartTime: g.timev(now), Minters: g.minters(now)}
		if !minterParamsSane(mintertypes.Params{MintDenom: BondDenom, StartTime: m.StartTime, Minters: m.Minters}) && m.Authority == appparams.GetAuthority() {
			m.Authority = kernel.ActorBech(signer)
		}
		return m, signer, routeOr(rng, "direct")
	case 10:
		var sds []disttypes.SubDistributor
		for i := 0; i < rng.Range(0, 3); i++ {
			sds = append(sds, g.subDistributor())
		}
		return &disttypes.MsgUpdateParams{Authority: g.authority(), SubDistributors: sds}, signer, routeOr(rng, "direct")
	case 11:
		m := &disttypes.MsgUpdateSubDistributorParam{Authority: g.authority()}
		if rng.P(0.75) {
			sd := g.subDistributor()
			m.SubDistributor = &sd
		}
		return m, signer, routeOr(rng, "direct")
	case 12:
		return &disttypes.MsgUpdateSubDistributorDestinationShareParam{Authority: g.authority(), SubDistributorName: g.name("sink"), DestinationName: g.name("share1"), Share: g.dec()}, signer, routeOr(rng, "direct")
	case 13:
		return &disttypes.MsgUpdateSubDistributorBurnShareParam{Authority: g.authority(), SubDistributorName: g.name("sink"), BurnShare: g.dec()}, signer, routeOr(rng, "direct")
	case 14:
		pk := ""
		switch rng.Intn(4) {
		case 0:
			pk = "{bad"
		case 1:
			pk = `{"@type":"/cosmos.crypto.secp256k1.PubKey","key":"AAAA"}`
		default:
			if bz, err := kernel.Enc().Marshaler.MarshalInterfaceJSON(kernel.ActorKey(signer).PubKey()); err == nil {
				pk = string(bz)
			}
		}
		return &sigtypes.MsgCreateAccount{Creator: pickOwner(), AccAddressString: g.addr(), PubKeyString: pk}, signer, "sig"
	case 15:
		key := g.refID()
		if rng.P(0.7) {
			// a record stored where VerifySignature will look for it
			key = hexHash(g.sigAddr() + ":" + g.sigRef())
		}
		return &sigtypes.MsgStoreSignature{Creator: pickOwner(), StorageKey: key, SignatureJSON: g.sigJSON()}, signer, "sig"
	default:
		key := g.refID()
		if rng.P(0.7) {
			key = hexHash(g.sigRef())
		}
		return &sigtypes.MsgPublishReferencePayloadLink{Creator: pickOwner(), Key: key, Value: g.name()}, signer, "sig"
	}
}

func routeOr(rng *kernel.Rng, r string) string {
	if rng.P(0.65) {
		return r
	}
	return ""
}

// encodeBin returns the message as base64 proto Any when it survives an encode/decode round trip.
func encodeBin(msg sdk.Msg) (s string, ok bool) {
	defer func() {
		if r := recover(); r != nil {
			ok = false
		}
	}()
	bz, err := kernel.Enc().Marshaler.MarshalInterface(msg)
	if err != nil {
		return "", false
	}
	var back sdk.Msg
	if err := kernel.Enc().Marshaler.UnmarshalInterface(bz, &back); err != nil {
		return "", false
	}
	return base64.StdEncoding.EncodeToString(bz), true
}

func (g *advGen) txGen(r *kernel.Run, _ *kernel.Rng) *kernel.Tx {
	for tries := 0; tries < 5; tries++ {
		msg, signer, route := g.genMsg(r)
		note := sdk.MsgTypeURL(msg)
		if route == "direct" && signedByKeylessModuleAccount(msg) {
			// the message router is reached on behalf of an account by x/gov (its own account), authz, group or ICA - never
			// on behalf of a module account other than gov, which has no key and grants nothing: such a message can only
			// arrive as a transaction, where the signature check refuses it
			route = ""
		}
		if route == "" && g.rng.Intn(8) == 0 {
			// the same message wrapped in an authz MsgExec signed by the grantee: x/authz hands the inner message to its
			// handler without ValidateBasic and asks it for its signers first
			if _, ok := encodeBin(msg); ok {
				func() {
					defer func() { _ = recover() }() // a message that cannot be packed is sent as it is
					exec := authz.NewMsgExec(kernel.ActorAddr(signer), []sdk.Msg{msg})
					msg, note = &exec, "authz-exec:"+note
				}()
			}
		}
		bin, ok := encodeBin(msg)
		if !ok {
			r.Stats.Inc("probe.unencodable_message_skipped")
			continue
		}
		return &kernel.Tx{Signer: signer, Bin: []string{bin}, Route: route, Note: note}
	}
	return nil
}

var queryMethods = []string{
	"/chain4energy.c4echain.cfeminter.Query/Params", "/chain4energy.c4echain.cfeminter.Query/Inflation", "/chain4energy.c4echain.cfeminter.Query/State",
	"/chain4energy.c4echain.cfevesting.Query/Params", "/chain4energy.c4echain.cfevesting.Query/VestingType", "/chain4energy.c4echain.cfevesting.Query/VestingPools",
	"/chain4energy.c4echain.cfevesting.Query/VestingsSummary", "/chain4energy.c4echain.cfevesting.Query/GenesisVestingsSummary",
	"/chain4energy.c4echain.cfedistributor.Query/Params", "/chain4energy.c4echain.cfedistributor.Query/States",
	"/chain4energy.c4echain.cfesignature.Query/Params", "/chain4energy.c4echain.cfesignature.Query/CreateReferenceId", "/chain4energy.c4echain.cfesignature.Query/CreateStorageKey",
	"/chain4energy.c4echain.cfesignature.Query/CreateReferencePayloadLink", "/chain4energy.c4echain.cfesignature.Query/VerifySignature", "/chain4energy.c4echain.cfesignature.Query/GetAccountInfo",
	"/chain4energy.c4echain.cfesignature.Query/VerifyReferencePayloadLink", "/chain4energy.c4echain.cfesignature.Query/GetReferencePayloadLink",
}

type marshaler interface{ Marshal() ([]byte, error) }

func (g *advGen) genQuery(r *kernel.Run) *kernel.Query {
	path := queryMethods[g.rng.Intn(len(queryMethods))]
	if g.rng.Intn(6) == 0 {
		path = "/chain4energy.c4echain.cfesignature.Query/VerifySignature"
	} else if g.rng.Intn(5) == 0 {
		// queries without arguments depend on the state only: ask them often, right after every kind of block
		path = []string{"/chain4energy.c4echain.cfeminter.Query/Inflation", "/chain4energy.c4echain.cfevesting.Query/VestingsSummary", "/chain4energy.c4echain.cfedistributor.Query/States", "/chain4energy.c4echain.cfeminter.Query/State"}[g.rng.Intn(4)]
	}
	var req marshaler
	switch path[strings.LastIndex(path, "/")+1:] {
	case "VestingPools":
		req = &vtypes.QueryVestingPoolsRequest{Owner: g.addr()}
	case "CreateReferenceId":
		req = &sigtypes.QueryCreateReferenceIdRequest{Creator: g.addr()}
	case "CreateStorageKey":
		req = &sigtypes.QueryCreateStorageKeyRequest{TargetAccAddress: g.addr(), ReferenceId: g.refID()}
	case "CreateReferencePayloadLink":
		req = &sigtypes.QueryCreateReferencePayloadLinkRequest{ReferenceId: g.refID(), PayloadHash: g.name()}
	case "VerifySignature":
		req = &sigtypes.QueryVerifySignatureRequest{ReferenceId: g.refID(), TargetAccAddress: g.addr()}
		if g.rng.P(0.8) {
			req = &sigtypes.QueryVerifySignatureRequest{ReferenceId: g.sigRef(), TargetAccAddress: g.sigAddr()}
		}
	case "GetAccountInfo":
		req = &sigtypes.QueryGetAccountInfoRequest{AccAddressString: g.addr()}
	case "VerifyReferencePayloadLink":
		req = &sigtypes.QueryVerifyReferencePayloadLinkRequest{ReferenceId: g.refID(), PayloadHash: g.name()}
	case "GetReferencePayloadLink":
		req = &sigtypes.QueryGetReferencePayloadLinkRequest{ReferenceId: g.refID()}
	}
	var data []byte
	if req != nil {
		data, _ = req.Marshal()
	}
	if g.rng.Intn(12) == 0 {
		data = []byte{0xff, 0xff, 0xff, 0x01, 0x02}
	}
	return &kernel.Query{Path: path, Data: base64.StdEncoding.EncodeToString(data)}
}

type c20Source struct {
	*genSource
	g       *advGen
	qQuota  int
	qIssued int
	lastBlk int
}

func (s *c20Source) NextQuery(r *kernel.Run, b *kernel.Block) *kernel.Query {
	if s.lastBlk != r.BlockIdx {
		s.lastBlk = r.BlockIdx
		s.qIssued = 0
		s.qQuota = s.g.rng.Range(3, 8)
	}
	if s.qIssued >= s.qQuota {
		return nil
	}
	s.qIssued++
	return s.g.genQuery(r)
}

// c20Monitor classifies panics.
type c20Monitor struct {
	kernel.NopMonitor
	evals   int64
	vbErr   error
	vbPanic *kernel.PanicInfo
	classes map[string]bool
	qseen   map[string]bool
}

func safeValidateBasic(msg sdk.Msg) (err error, pi *kernel.PanicInfo) {
	defer func() {
		if r := recover(); r != nil {
			buf := make([]byte, 1<<14)
			pi = &kernel.PanicInfo{Where: "ValidateBasic", Value: fmt.Sprint(r), Stack: string(buf[:stackInto(buf)])}
		}
	}()
	return msg.ValidateBasic(), nil
}

func (m *c20Monitor) BeforeTx(r *kernel.Run, tx *kernel.Tx, msgs []sdk.Msg) {
	m.vbErr, m.vbPanic = nil, nil
	if len(msgs) == 1 {
		m.vbErr, m.vbPanic = safeValidateBasic(msgs[0])
	}
}

func (m *c20Monitor) AfterTx(r *kernel.Run, tx *kernel.Tx, msgs []sdk.Msg, res *kernel.TxResult) {
	if len(msgs) != 1 {
		return
	}
	m.evals++
	url := sdk.MsgTypeURL(msgs[0])
	short := url[strings.LastIndex(url, ".")+1:]
	outcome := "rejected"
	if res.OK {
		outcome = "ok"
		r.Stats.Inc("probe.adversarial_message_accepted")
	}
	if m.vbErr == nil && m.vbPanic == nil {
		r.Stats.Inc("probe.message_passed_validatebasic")
	}
	if m.vbPanic != nil {
		outcome = "vb-panic"
		r.Violate("C20", "message-panic", "validatebasic-panic:"+short+"@"+m.vbPanic.Site(), "%s.ValidateBasic panicked: %s", short, firstLineOf(m.vbPanic.Value))
	} else if res.Panic != nil {
		outcome = "panic"
		site := res.Panic.Site()
		switch {
		case tx.Route == "":
			r.Violate("C20", "message-panic", "deliver-panic:"+short+"@"+site, "%s panicked in DeliverTx: %s", short, firstLineOf(res.Panic.Value))
		case m.vbErr == nil:
			r.Violate("C20", "message-panic", "handler-panic:"+short+"@"+site, "%s passed ValidateBasic and its handler panicked: %s", short, firstLineOf(res.Panic.Value))
		default:
			r.Stats.Inc("probe.handler_panic_on_input_rejected_by_validatebasic")
		}
	}
	m.classes[short+"/"+tx.Route+"/"+outcome] = true
}

func (m *c20Monitor) AfterQuery(r *kernel.Run, q *kernel.Query, resp abci.ResponseQuery, pi *kernel.PanicInfo) {
	m.evals++
	short := q.Path[strings.Index(q.Path, "c4echain.")+9:]
	m.qseen[short] = true
	if pi != nil {
		r.Violate("C20", "query-panic", "query-panic:"+short+"@"+pi.Site(), "query %s panicked: %s", short, firstLineOf(pi.Value))
		return
	}
	if kernel.IsErrPanic(resp.Codespace, resp.Code, resp.Log) {
		r.Violate("C20", "query-panic", "query-panic:"+short, "query %s panicked (recovered by baseapp): %s", short, firstLineOf(resp.Log))
	}
}

func stackInto(buf []byte) int { return runtimeStack(buf) }

func c20RunSeed(seed uint64, tier string) *Outcome {
	r := kernel.NewRng(seed)
	spec, w := buildVestingWorld(r.Fork(20), vestingWorldOpts{MaxAmtExp: 20, GenesisPools: true, GenesisVAccs: true, MultiDenomAcc: true})
	spec.NoPubKey = []string{spec.Clients[len(spec.Clients)-1]}
	tr := &kernel.Trace{Profile: "C20", Seed: seed, Spec: *spec}
	rr := r.Fork(21)
	g := &advGen{w: w, rng: rr.Fork(1)}
	valid := w.txGens(map[string]int{"createPool": 1, "send": 1, "withdraw": 1, "createVestingAccount": 1, "split": 2, "move": 1, "delegate": 2})
	gens := []TxGen{g.txGen, g.txGen, g.txGen, g.txGen}
	gens = append(gens, valid...)
	// valid parameter updates applied the way governance applies them (message router, gov authority): queries and
	// messages must survive every parameter state that validation accepts
	gw := &govWorld{Voter: spec.Clients[0], Attackers: spec.Clients[1:], SaneMinter: true,
		MinterCfg: MinterGenCfg{MaxPeriods: 3, MaxAmountExp: 24, MaxStepsHint: 50, Horizon: 48 * time.Hour, AllowNone: true},
		DistCfg:   DistGenCfg{MaxSubs: 3, MultiSource: true, ShareToMain: true, AllowBurn: true, BaseAddrs: []string{kernel.ActorBech(spec.Clients[1]), kernel.ActorBech(spec.Clients[2])}}}
	gens = append(gens, func(run *kernel.Run, x *kernel.Rng) *kernel.Tx {
		m := gw.anyUpdate(run, x, gov())
		if m == nil {
			return nil
		}
		t := msgTx(spec.Clients[1], m, "direct")
		if t != nil {
			t.Note = "valid-update-direct"
		}
		return t
	})
	src := &c20Source{genSource: &genSource{rng: rr, nBlocks: rr.Range(8, 20), Cadence: w.cadence, MaxTxs: 8, PTx: 1.0, TxGens: gens}, g: g, lastBlk: -1}
	return c20Exec(tr, src)
}

func c20Replay(tr *kernel.Trace) *Outcome { return c20Exec(tr, nil) }

func c20Exec(tr *kernel.Trace, src kernel.Source) *Outcome {
	mon := &c20Monitor{classes: map[string]bool{}, qseen: map[string]bool{}}
	_, o := execTrace(tr, src, []kernel.Monitor{mon, haltMonitor{}}, false)
	o.Evals = mon.evals
	o.Nontrivial = o.Stats.Counters["probe.message_passed_validatebasic"] > 0 && o.Stats.Counters["tx.rejected"] > 0
	cl := ""
	for _, k := range kernel.SortedKeys(mon.classes) {
		cl += k + ";"
	}
	qs := ""
	for _, k := range kernel.SortedKeys(mon.qseen) {
		qs += k + ";"
	}
	o.Fingerprint = fingerprint(cl, qs, len(o.Violations) > 0)
	if o.Trace != nil {
		s := map[string]interface{}{"seed": o.Trace.Seed, "blocks": len(o.Trace.Blocks), "message_classes": len(mon.classes), "query_methods": len(mon.qseen)}
		for _, b := range o.Trace.Blocks {
			if len(b.Txs) > 0 {
				s["first_tx"] = map[string]string{"type": b.Txs[0].Note, "route": b.Txs[0].Route}
				break
			}
		}
		o.Sample = s
	}
	return o
}

// minterParamsSane: inside the magnitudes for which C10 promises a running chain (amounts below 1e36, steps and
// periods of at least one second, multipliers at most 1). Updates outside are still generated, but never with the
// governance authority, so they cannot be applied.
func minterParamsSane(p mintertypes.Params) (ok bool) {
	defer func() {
		if r := recover(); r != nil {
			ok = false
		}
	}()
	p.Minters = append([]*mintertypes.Minter(nil), p.Minters...) // Validate sorts in place: keep the caller's order
	if p.Validate() != nil {
		return true // will be rejected anyway
	}
	lim := sdk.NewIntFromBigInt(bigPow10(36))
	prev := p.StartTime
	if prev.Year() < 1900 || prev.Year() > 2200 {
		return false
	}
	for _, m := range p.Minters {
		if m.EndTime != nil {
			if m.EndTime.Sub(prev) < time.Second || m.EndTime.Year() > 2200 {
				return false
			}
			prev = *m.EndTime
		}
		switch c := m.Config.GetCachedValue().(type) {
		case *mintertypes.LinearMinting:
			if c.Amount.GTE(lim) {
				return false
			}
		case *mintertypes.ExponentialStepMinting:
			if c.Amount.GTE(lim) || c.AmountMultiplier.GT(sdk.OneDec()) || c.StepDuration < time.Second {
				return false
			}
			// keep the number of steps the chain loops over per block bounded
			if c.StepDuration < time.Hour {
				return false
			}
		}
	}
	return true
}

var keylessModuleAccounts = []string{"cfevesting", "cfeminter", "distributor_main_account", "fee_collector", "bonded_tokens_pool",
	"not_bonded_tokens_pool", "distribution", "transfer", "interchainaccounts", "mint", "validators_rewards_collector",
	"green_energy_booster_collector", "governance_booster_collector"}

// signedByKeylessModuleAccount: one of the message's signers is a module account other than gov.
func signedByKeylessModuleAccount(msg sdk.Msg) (yes bool) {
	defer func() {
		if recover() != nil {
			yes = false
		}
	}()
	for _, s := range msg.GetSigners() {
		for _, name := range keylessModuleAccounts {
			if s.Equals(kernel.ModuleAddr(name)) {
				return true
			}
		}
	}
	return false
}
