package checks

import (
	"fmt"
	"time"

	mintertypes "github.com/chain4energy/c4e-chain/x/cfeminter/types"
	codectypes "github.com/cosmos/cosmos-sdk/codec/types"
	sdk "github.com/cosmos/cosmos-sdk/types"

	"verifsim/kernel"
)

// The distributor-focused profile shared by C03, C04, C14 and the distribution half of C18:
// a generated sub-distributor configuration, inflows from a linear minter (into main), fees (into
// fee_collector), bank sends into base-account sources and genesis balances of module-account sources.

type distProfileOpts struct {
	Prop      string
	Faulty    bool // F-bank-inj / F-bank-nat (C14); otherwise fault-free and predictive
	Blocks    [2]int
	MaxAmtExp int
	// BlockedDests: base-account destinations that cannot receive funds (module addresses): valid configurations
	// in which payouts fail naturally every block
	BlockedDests bool
	// GenMinter: a generated multi-period emission schedule with a short horizon (blocks jump over several period ends)
	GenMinter bool
}

// linearMinterJSON: one linear period over ~span, then no minting; amount sized so that blocks mint visibly.
func simpleMinterParams(r *kernel.Rng, genesis time.Time, maxExp int) mintertypes.Params {
	span := time.Duration(r.Range(1, 400)) * time.Hour
	end := genesis.Add(span)
	amt := sdk.NewIntFromBigInt(r.BigLogUniform(maxExp))
	lin, _ := codectypes.NewAnyWithValue(&mintertypes.LinearMinting{Amount: amt})
	none, _ := codectypes.NewAnyWithValue(&mintertypes.NoMinting{})
	return mintertypes.Params{MintDenom: BondDenom, StartTime: genesis, Minters: []*mintertypes.Minter{
		{SequenceId: 1, EndTime: &end, Config: lin}, {SequenceId: 2, Config: none}}}
}

func buildDistWorld(r *kernel.Rng, o distProfileOpts) (*kernel.WorldSpec, DistGenCfg, error) {
	extra := []string{"aaa", "zzz"}[:r.Range(0, 2)]
	nClients := r.Range(4, 8)
	spec := baseSpec(r.Fork(1), nClients, extra, o.MaxAmtExp)
	// a few addresses that exist only as distributor sources/destinations
	cfg := DistGenCfg{MaxSubs: r.Range(1, 6), MultiSource: r.P(0.7), ShareToMain: r.P(0.6), IDCollisions: r.P(0.5), AllowBurn: r.P(0.7), SelfAsModule: r.P(0.25), NoVRCSource: o.Faulty}
	// a quarter of the worlds; derived from what is already drawn so that the streams of all other worlds stay as they were
	cfg.Respell = kernel.Mix(uint64(spec.GenesisTime.UnixNano()), 9)%4 == 0
	for i := 2; i < nClients; i++ {
		cfg.BaseAddrs = append(cfg.BaseAddrs, kernel.ActorBech(kernel.ClientName(i)))
	}
	for i := 0; i < 2; i++ {
		cfg.BaseAddrs = append(cfg.BaseAddrs, kernel.ActorBech(fmt.Sprintf("sink-%d", i)))
	}
	if (o.Faulty || o.BlockedDests) && r.P(0.5) {
		cfg.BlockedBaseAddrs = []string{kernel.ModuleAddr("transfer").String(), kernel.ModuleAddr("interchainaccounts").String(),
			// module accounts that exist in the account store from genesis on
			kernel.ModuleAddr("bonded_tokens_pool").String(), kernel.ModuleAddr("distribution").String()}
	}
	params, err := GenDistParams(r.Fork(2), cfg)
	if err != nil {
		return nil, cfg, err
	}
	spec.Distributor = DistGenesisJSON(params)
	spec.Minter = MinterGenesisJSON(simpleMinterParams(r.Fork(3), spec.GenesisTime, o.MaxAmtExp), spec.GenesisTime)
	if o.GenMinter {
		rm := r.Fork(33)
		horizon := time.Duration(rm.Range(20, 4000)) * time.Second
		if mp, err := GenMinterParams(rm, spec.GenesisTime, BondDenom, MinterGenCfg{MaxPeriods: 6, MaxAmountExp: o.MaxAmtExp, MaxStepsHint: 200, Horizon: horizon, AllowNone: true}); err == nil {
			spec.Minter = MinterGenesisJSON(mp, spec.GenesisTime)
		}
	}
	// genesis balances for module-account sources so that they have something to sweep
	for _, sd := range params.SubDistributors {
		for _, s := range sd.Sources {
			if s.Type == "MODULE_ACCOUNT" && s.Id != "distributor_main_account" && r.P(0.6) {
				coins := sdk.NewCoins(sdk.NewCoin(BondDenom, sdk.NewIntFromBigInt(r.BigLogUniform(o.MaxAmtExp))))
				for _, d := range extra {
					if r.Bool() {
						coins = coins.Add(sdk.NewCoin(d, sdk.NewIntFromBigInt(r.BigLogUniform(o.MaxAmtExp))))
					}
				}
				spec.Balances = append(spec.Balances, kernel.BalSpec{Module: s.Id, Coins: coins.String()})
			}
		}
	}
	return spec, cfg, nil
}

func distSource(r *kernel.Rng, spec *kernel.WorldSpec, cfg DistGenCfg, o distProfileOpts) *genSource {
	senders := []string{}
	for _, c := range spec.Clients {
		senders = append(senders, c)
	}
	recips := append([]string{}, cfg.BaseAddrs...)
	for _, c := range spec.Clients {
		recips = append(recips, kernel.ActorBech(c))
	}
	g := &genSource{rng: r, nBlocks: r.Range(o.Blocks[0], o.Blocks[1]), Cadence: regularCadence, MaxTxs: 4, PTx: 0.7,
		// squatting (an ordinary account created at a collector's address) makes that collector unpayable for good: a
		// persistent natural fault, so only where such faults are part of the profile
		TxGens: []TxGen{bankSendGen(senders, recips, true, o.Faulty || o.BlockedDests)}}
	if o.GenMinter {
		// governance lowers (or raises) the amounts of the running schedule now and then: a period may end up having
		// minted more than its new total
		g.TxGens = append(g.TxGens, func(run *kernel.Run, rng *kernel.Rng) *kernel.Tx {
			if !rng.P(0.35) {
				return nil
			}
			p := cloneMinterParams(run.Chain.MinterParams())
			for _, m := range p.Minters {
				switch cfg := m.Config.GetCachedValue().(type) {
				case *mintertypes.LinearMinting:
					a := cfg.Amount.QuoRaw(int64(rng.Range(2, 20)))
					if rng.Intn(4) == 0 {
						a = cfg.Amount.MulRaw(int64(rng.Range(2, 5)))
					}
					any, _ := codectypes.NewAnyWithValue(&mintertypes.LinearMinting{Amount: a})
					m.Config = any
				case *mintertypes.ExponentialStepMinting:
					a := cfg.Amount.QuoRaw(int64(rng.Range(2, 20)))
					any, _ := codectypes.NewAnyWithValue(&mintertypes.ExponentialStepMinting{Amount: a, AmountMultiplier: cfg.AmountMultiplier, StepDuration: cfg.StepDuration})
					m.Config = any
				}
			}
			t := msgTx(spec.Clients[0], &mintertypes.MsgUpdateMintersParams{Authority: gov(), StartTime: p.StartTime, Minters: p.Minters}, "direct")
			if t != nil {
				t.Note = "gov-changes-amounts"
			}
			return t
		})
		// short schedules: jumps of minutes to hours cross several period ends in one block; total time stays bounded
		// (the chain evaluates exponential periods step by step)
		start := spec.GenesisTime
		g.Cadence = func(run *kernel.Run, rng *kernel.Rng) int64 {
			if run.Chain.Now.Sub(start) > 6*time.Hour {
				return int64(5*time.Second) + rng.I64n(int64(2*time.Second))
			}
			switch rng.Intn(6) {
			case 0:
				return int64(time.Duration(rng.Range(1, 90)) * time.Minute)
			case 1:
				return int64(time.Duration(rng.Range(10, 600)) * time.Second)
			case 2:
				return 1
			}
			return int64(5*time.Second) + rng.I64n(int64(2*time.Second))
		}
	}
	return g
}
