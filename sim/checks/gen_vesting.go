package checks

import (
	"bytes"
	"encoding/base64"
	"encoding/json"
	"fmt"
	"math"
	"math/big"
	"strings"
	"time"

	sigtypes "github.com/chain4energy/c4e-chain/x/cfesignature/types"
	vtypes "github.com/chain4energy/c4e-chain/x/cfevesting/types"
	sdk "github.com/cosmos/cosmos-sdk/types"
	authvesting "github.com/cosmos/cosmos-sdk/x/auth/vesting/types"
	stakingtypes "github.com/cosmos/cosmos-sdk/x/staking/types"

	"verifsim/kernel"
)

// vestingWorld is the generator-side knowledge of a vesting-focused world (not needed for replay).
type vestingWorld struct {
	Clients      []string
	VestingTypes []string
	ExtraDenoms  []string
	Fresh        int      // counter of fresh recipient actors
	VestActors   []string // actors whose address is (expected to be) a continuous vesting account
	PoolNames    int
	LockEnds     []time.Time // interesting instants for boundary targeting
}

func genFree(r *kernel.Rng) sdk.Dec {
	switch r.Intn(7) {
	case 0:
		return sdk.ZeroDec()
	case 1:
		return sdk.OneDec()
	case 2:
		return sdk.NewDecWithPrec(5, 2)
	case 3:
		return sdk.NewDecWithPrec(int64(r.Range(1, 999)), 18)
	case 4:
		return sdk.NewDecWithPrec(333333333333333333, 18)
	default:
		return sdk.NewDecFromBigIntWithPrec(r.BigBelow(new(big.Int).Add(bigE18, big.NewInt(1))), 18)
	}
}

func genPeriodUnits(r *kernel.Rng) (int64, string) {
	units := []string{vtypes.Second, vtypes.Minute, vtypes.Hour, vtypes.Day}
	u := units[r.Intn(len(units))]
	switch r.Intn(4) {
	case 0:
		return 0, u
	case 1:
		return 1, u
	}
	if r.Intn(12) == 0 {
		// very long but valid periods (each below the 292-year limit of a duration; their sum may exceed it)
		return int64(r.Range(40000, 106000)), vtypes.Day
	}
	return int64(r.Range(1, 90)), u
}

type vestingWorldOpts struct {
	// TwoSpellings: the genesis file may list one owner twice, once in lower and once in upper case (two valid spellings
	// of one address; the file passes genesis validation)
	TwoSpellings  bool
	MaxAmtExp     int
	GenesisPools  bool
	GenesisVAccs  bool
	MultiDenomAcc bool
}

// buildVestingWorld: clients with balances, vesting types, optional genesis pools (genesis flag true/false)
// backed by the module balance, optional genesis continuous vesting accounts with traces.
func buildVestingWorld(r *kernel.Rng, o vestingWorldOpts) (*kernel.WorldSpec, *vestingWorld) {
	extra := []string{"aaa", "zzz"}[:r.Range(0, 2)]
	n := r.Range(4, 8)
	spec := baseSpec(r.Fork(1), n, extra, o.MaxAmtExp)
	w := &vestingWorld{Clients: spec.Clients, ExtraDenoms: extra}
	vg := vtypes.GenesisState{Params: vtypes.Params{Denom: BondDenom}, VestingAccountTraces: []vtypes.VestingAccountTrace{}}
	nt := r.Range(1, 4)
	for i := 0; i < nt; i++ {
		lp, lu := genPeriodUnits(r)
		vp, vu := genPeriodUnits(r)
		if r.Intn(8) == 0 {
			// both periods very long: each is a valid duration, their sum is not
			lp, lu = int64(r.Range(60000, 106000)), vtypes.Day
			vp, vu = int64(r.Range(60000, 106000)), vtypes.Day
		}
		name := fmt.Sprintf("vt%d", i+1)
		vg.VestingTypes = append(vg.VestingTypes, vtypes.GenesisVestingType{Name: name, LockupPeriod: lp, LockupPeriodUnit: lu, VestingPeriod: vp, VestingPeriodUnit: vu, Free: genFree(r)})
		w.VestingTypes = append(w.VestingTypes, name)
	}
	moduleTotal := sdk.ZeroInt()
	if o.GenesisPools && r.P(0.7) {
		owners := r.Range(1, 3)
		for i := 0; i < owners; i++ {
			owner := spec.Clients[r.Intn(len(spec.Clients))]
			// an owner appears once - or, with TwoSpellings, at most once per spelling (lower case, upper case)
			spelled := map[string]bool{}
			for _, avp := range vg.AccountVestingPools {
				if strings.EqualFold(avp.Owner, kernel.ActorBech(owner)) {
					spelled[avp.Owner] = true
				}
			}
			avp := &vtypes.AccountVestingPools{Owner: kernel.ActorBech(owner)}
			if r.Intn(10) == 0 {
				avp.Owner = strings.ToUpper(avp.Owner) // the genesis file spells the owner in upper case (valid bech32)
			}
			if len(spelled) > 0 {
				if !o.TwoSpellings || len(spelled) > 1 {
					continue
				}
				if spelled[avp.Owner] { // use the other spelling
					if avp.Owner == kernel.ActorBech(owner) {
						avp.Owner = strings.ToUpper(avp.Owner)
					} else {
						avp.Owner = kernel.ActorBech(owner)
					}
				}
			}
			np := r.Range(1, 3)
			for k := 0; k < np; k++ {
				w.PoolNames++
				init := sdk.NewIntFromBigInt(r.BigLogUniform(o.MaxAmtExp))
				sent := sdk.ZeroInt()
				wd := sdk.ZeroInt()
				if r.P(0.3) {
					sent = sdk.NewIntFromBigInt(r.BigBelow(new(big.Int).Add(init.BigInt(), big.NewInt(1))))
				}
				if r.P(0.2) {
					rest := init.Sub(sent)
					wd = sdk.NewIntFromBigInt(r.BigBelow(new(big.Int).Add(rest.BigInt(), big.NewInt(1))))
				}
				start := spec.GenesisTime.Add(-time.Duration(r.Range(0, 1000)) * time.Hour)
				end := spec.GenesisTime.Add(time.Duration(r.Range(-10, 400))*time.Minute + time.Duration(r.Range(0, 999))*time.Millisecond)
				if end.Before(start) {
					start = end
				}
				p := &vtypes.VestingPool{Name: fmt.Sprintf("gp%d", w.PoolNames), VestingType: w.VestingTypes[r.Intn(len(w.VestingTypes))], LockStart: start, LockEnd: end,
					InitiallyLocked: init, Withdrawn: wd, Sent: sent, GenesisPool: r.P(0.6)}
				avp.VestingPools = append(avp.VestingPools, p)
				moduleTotal = moduleTotal.Add(p.GetCurrentlyLocked())
				w.LockEnds = append(w.LockEnds, end)
			}
			vg.AccountVestingPools = append(vg.AccountVestingPools, avp)
		}
	}
	if moduleTotal.IsPositive() {
		spec.Balances = append(spec.Balances, kernel.BalSpec{Module: vtypes.ModuleName, Coins: sdk.NewCoin(BondDenom, moduleTotal).String()})
	}
	if o.GenesisVAccs && r.P(0.8) {
		nv := r.Range(1, 3)
		for i := 0; i < nv; i++ {
			name := fmt.Sprintf("gvacc-%d", i)
			ov := sdk.NewCoins(sdk.NewCoin(BondDenom, sdk.NewIntFromBigInt(r.BigLogUniform(o.MaxAmtExp))))
			if o.MultiDenomAcc {
				for _, d := range extra {
					if r.Bool() {
						ov = ov.Add(sdk.NewCoin(d, sdk.NewIntFromBigInt(r.BigLogUniform(o.MaxAmtExp))))
					}
				}
			}
			bal := ov
			if r.Bool() {
				bal = bal.Add(sdk.NewCoin(BondDenom, sdk.NewInt(int64(r.Range(1, 1000000)))))
			}
			start := spec.GenesisTime.Unix() + int64(r.Range(-3600, 3600))
			end := start + int64(r.Range(1, 400))*int64(r.Range(1, 3600))
			spec.VestingAccounts = append(spec.VestingAccounts, kernel.VAccSpec{Actor: name, OriginalVesting: ov.String(), Start: start, End: end})
			spec.Balances = append(spec.Balances, kernel.BalSpec{Actor: name, Coins: bal.String()})
			w.VestActors = append(w.VestActors, name)
			if r.P(0.7) {
				taddr := kernel.ActorBech(name)
				if r.Intn(10) == 0 {
					taddr = strings.ToUpper(taddr)
				}
				vg.VestingAccountTraces = append(vg.VestingAccountTraces, vtypes.VestingAccountTrace{Id: vg.VestingAccountTraceCount, Address: taddr, Genesis: r.P(0.7)})
				vg.VestingAccountTraceCount++
			}
			w.LockEnds = append(w.LockEnds, time.Unix(start, 0), time.Unix(end, 0))
		}
	}
	spec.Vesting = kernel.Enc().Marshaler.MustMarshalJSON(&vg)
	return spec, w
}

func msgTx(signer string, msg sdk.Msg, route string) *kernel.Tx {
	js, err := kernel.MsgToJSON(msg)
	if err != nil {
		return nil
	}
	// a message whose JSON form does not decode back to the same bytes (strings that are not valid UTF-8) is
	// recorded in its binary encoding
	if back, err := kernel.MsgFromJSON(js); err == nil {
		b1, e1 := kernel.Enc().Marshaler.MarshalInterface(msg)
		b2, e2 := kernel.Enc().Marshaler.MarshalInterface(back)
		if e1 == nil && e2 == nil && !bytes.Equal(b1, b2) {
			return &kernel.Tx{Signer: signer, Bin: []string{base64.StdEncoding.EncodeToString(b1)}, Route: route}
		}
	}
	return &kernel.Tx{Signer: signer, Msgs: []json.RawMessage{js}, Route: route}
}

func (w *vestingWorld) route(rng *kernel.Rng) string {
	if rng.P(0.2) {
		return "direct"
	}
	return ""
}

func (w *vestingWorld) fresh() string {
	w.Fresh++
	return kernel.FreshName(w.Fresh)
}

// pickRecipient: mostly a brand-new address; sometimes an existing account, a blocked module address or the sender.
func (w *vestingWorld) pickRecipient(rng *kernel.Rng, sender string) (bech string, freshName string) {
	switch rng.Intn(12) {
	case 0:
		return kernel.ActorBech(w.Clients[rng.Intn(len(w.Clients))]), ""
	case 1:
		return kernel.ModuleAddr(vtypes.ModuleName).String(), ""
	case 2:
		return kernel.ActorBech(sender), ""
	case 3:
		if len(w.VestActors) > 0 {
			return kernel.ActorBech(w.VestActors[rng.Intn(len(w.VestActors))]), ""
		}
	}
	n := w.fresh()
	return kernel.ActorBech(n), n
}

func biasedAmount(rng *kernel.Rng, limit sdk.Int) sdk.Int {
	if limit.IsNegative() {
		limit = sdk.ZeroInt()
	}
	switch rng.Intn(9) {
	case 0:
		return sdk.ZeroInt()
	case 1:
		return sdk.OneInt()
	case 2:
		return limit
	case 3:
		return limit.AddRaw(1)
	case 4:
		if limit.IsPositive() {
			return limit.SubRaw(1)
		}
		return limit
	case 5:
		return limit.QuoRaw(int64(rng.Range(2, 7)))
	}
	return sdk.NewIntFromBigInt(rng.BigBelow(new(big.Int).Add(limit.BigInt(), big.NewInt(1))))
}

func (w *vestingWorld) genCreatePool(r *kernel.Run, rng *kernel.Rng) *kernel.Tx {
	owner := w.Clients[rng.Intn(len(w.Clients))]
	bal := r.Chain.BalanceOf(kernel.ActorAddr(owner)).AmountOf(BondDenom)
	name := ""
	switch rng.Intn(10) {
	case 0:
		name = fmt.Sprintf("p%d", rng.Range(1, w.PoolNames+1)) // possibly a duplicate
	case 1:
		name = "" // invalid
	case 2:
		// a name that is not valid UTF-8 (the wire format does not care; JSON does)
		w.PoolNames++
		name = fmt.Sprintf("p%d-\xff", w.PoolNames)
		if rng.Bool() {
			name = fmt.Sprintf("p%d-\xfe", w.PoolNames)
		}
	default:
		w.PoolNames++
		name = fmt.Sprintf("p%d", w.PoolNames)
	}
	var dur time.Duration
	switch rng.Intn(8) {
	case 0:
		dur = 1
	case 1:
		dur = time.Second
	case 2:
		dur = 0
	case 3:
		dur = time.Duration(rng.Range(1, 30)) * time.Second
	case 4:
		// "locked for good": valid durations whose lock end lies beyond what fits into 64-bit nanoseconds since 1970
		// (April 2262), up to the longest duration there is
		switch rng.Intn(4) {
		case 0:
			dur = time.Duration(math.MaxInt64)
		case 1:
			dur = -time.Duration(rng.Range(1, 3000)) * time.Second // invalid
		default:
			dur = time.Duration(rng.Range(100, 292)) * 365 * 24 * time.Hour
		}
	default:
		dur = time.Duration(rng.Range(1, 3000)) * time.Second
	}
	vt := "unknown-type"
	if rng.P(0.92) {
		vt = w.VestingTypes[rng.Intn(len(w.VestingTypes))]
	}
	msg := &vtypes.MsgCreateVestingPool{Owner: kernel.ActorBech(owner), Name: name, Amount: biasedAmount(rng, bal), Duration: dur, VestingType: vt}
	if dur >= 0 && dur < 50*365*24*time.Hour {
		w.LockEnds = append(w.LockEnds, r.Chain.Now.Add(dur)) // the cadence aims at these
	}
	return msgTx(owner, respell(rng, msg), w.route(rng))
}

func (w *vestingWorld) ownersWithPools(r *kernel.Run) []vtypes.AccountVestingPools {
	return r.Chain.App.CfevestingKeeper.GetAllAccountVestingPools(r.Chain.Ctx())
}

func (w *vestingWorld) actorOf(bech string) string {
	for _, c := range w.Clients {
		if kernel.ActorBech(c) == bech {
			return c
		}
	}
	for _, c := range w.VestActors {
		if kernel.ActorBech(c) == bech {
			return c
		}
	}
	return ""
}

func (w *vestingWorld) genSend(r *kernel.Run, rng *kernel.Rng) *kernel.Tx {
	all := w.ownersWithPools(r)
	var owner string
	var pool *vtypes.VestingPool
	if len(all) > 0 && rng.P(0.9) {
		avp := all[rng.Intn(len(all))]
		owner = w.actorOf(avp.Owner)
		if len(avp.VestingPools) > 0 {
			pool = avp.VestingPools[rng.Intn(len(avp.VestingPools))]
		}
	}
	if owner == "" {
		owner = w.Clients[rng.Intn(len(w.Clients))]
	}
	poolName := "no-such-pool"
	limit := sdk.NewInt(1000)
	if pool != nil && rng.P(0.93) {
		poolName = pool.Name
		limit = pool.GetCurrentlyLocked()
	}
	to, freshName := w.pickRecipient(rng, owner)
	msg := &vtypes.MsgSendToVestingAccount{Owner: kernel.ActorBech(owner), ToAddress: to, VestingPoolName: poolName, Amount: biasedAmount(rng, limit), RestartVesting: rng.Bool()}
	if freshName != "" {
		w.VestActors = append(w.VestActors, freshName)
	}
	return msgTx(owner, respell(rng, msg), w.route(rng))
}

func (w *vestingWorld) genWithdraw(r *kernel.Run, rng *kernel.Rng) *kernel.Tx {
	all := w.ownersWithPools(r)
	owner := w.Clients[rng.Intn(len(w.Clients))]
	if len(all) > 0 && rng.P(0.85) {
		if a := w.actorOf(all[rng.Intn(len(all))].Owner); a != "" {
			owner = a
		}
	}
	return msgTx(owner, respell(rng, &vtypes.MsgWithdrawAllAvailable{Owner: kernel.ActorBech(owner)}), w.route(rng))
}

func (w *vestingWorld) genCreateVestingAccount(r *kernel.Run, rng *kernel.Rng) *kernel.Tx {
	from := w.Clients[rng.Intn(len(w.Clients))]
	bal := r.Chain.BalanceOf(kernel.ActorAddr(from))
	coins := sdk.NewCoins()
	for _, c := range bal {
		if rng.P(0.6) {
			a := biasedAmount(rng, c.Amount)
			if a.IsPositive() {
				coins = coins.Add(sdk.NewCoin(c.Denom, a))
			}
		}
	}
	now := r.Chain.Now.Unix()
	start := now + int64(rng.Range(-5000, 5000))
	var end int64
	switch rng.Intn(6) {
	case 0:
		end = start
	case 1:
		end = start - int64(rng.Range(1, 100)) // invalid
	default:
		end = start + int64(rng.Range(1, 100000))
	}
	// boundary values of the time fields with otherwise valid requests
	switch rng.Intn(14) {
	case 0:
		start = math.MinInt64
	case 1:
		start = 0
	case 2:
		start = -1
	case 3:
		end = math.MaxInt64
	case 4:
		start, end = math.MinInt64, math.MaxInt64
	}
	to, freshName := w.pickRecipient(rng, from)
	msg := &vtypes.MsgCreateVestingAccount{FromAddress: kernel.ActorBech(from), ToAddress: to, Amount: coins, StartTime: start, EndTime: end}
	if freshName != "" {
		w.VestActors = append(w.VestActors, freshName)
		w.LockEnds = append(w.LockEnds, time.Unix(start, 0), time.Unix(end, 0))
	}
	return msgTx(from, respell(rng, msg), w.route(rng))
}

// pickVestingActor returns an actor that currently is a continuous vesting account.
func (w *vestingWorld) pickVestingActor(r *kernel.Run, rng *kernel.Rng) (string, *authvesting.ContinuousVestingAccount) {
	if len(w.VestActors) == 0 {
		return "", nil
	}
	for tries := 0; tries < 6; tries++ {
		a := w.VestActors[rng.Intn(len(w.VestActors))]
		acc := r.Chain.App.AccountKeeper.GetAccount(r.Chain.Ctx(), kernel.ActorAddr(a))
		if cva, ok := acc.(*authvesting.ContinuousVestingAccount); ok {
			return a, cva
		}
	}
	return "", nil
}

func (w *vestingWorld) genSplit(r *kernel.Run, rng *kernel.Rng) *kernel.Tx {
	from, _ := w.pickVestingActor(r, rng)
	if from == "" {
		if rng.P(0.3) {
			from = w.Clients[rng.Intn(len(w.Clients))] // not a vesting account: must be rejected
		} else {
			return nil
		}
	}
	locked, _ := r.Chain.SafeLockedCoins(kernel.ActorAddr(from))
	coins := sdk.NewCoins()
	for _, c := range locked {
		if rng.P(0.75) {
			a := biasedAmount(rng, c.Amount)
			if a.IsPositive() {
				coins = coins.Add(sdk.NewCoin(c.Denom, a))
			}
		}
	}
	if coins.IsZero() && rng.P(0.7) {
		coins = sdk.NewCoins(sdk.NewCoin(BondDenom, sdk.NewInt(int64(rng.Range(1, 5)))))
	}
	to, freshName := w.pickRecipient(rng, from)
	if freshName != "" {
		w.VestActors = append(w.VestActors, freshName)
	}
	return msgTx(from, respell(rng, &vtypes.MsgSplitVesting{FromAddress: kernel.ActorBech(from), ToAddress: to, Amount: coins}), w.route(rng))
}

func (w *vestingWorld) genMove(r *kernel.Run, rng *kernel.Rng) *kernel.Tx {
	from, _ := w.pickVestingActor(r, rng)
	if from == "" {
		return nil
	}
	to, freshName := w.pickRecipient(rng, from)
	if freshName != "" {
		w.VestActors = append(w.VestActors, freshName)
	}
	if rng.Bool() {
		return msgTx(from, respell(rng, &vtypes.MsgMoveAvailableVesting{FromAddress: kernel.ActorBech(from), ToAddress: to}), w.route(rng))
	}
	denoms := []string{}
	all := append([]string{BondDenom}, w.ExtraDenoms...)
	for _, d := range all {
		if rng.P(0.6) {
			denoms = append(denoms, d)
		}
	}
	switch rng.Intn(10) {
	case 0:
		denoms = append(denoms, "")
	case 1:
		denoms = append(denoms, "nosuchdenom")
	case 2:
		if len(denoms) > 0 {
			denoms = append(denoms, denoms[0])
		}
	}
	return msgTx(from, respell(rng, &vtypes.MsgMoveAvailableVestingByDenoms{FromAddress: kernel.ActorBech(from), ToAddress: to, Denoms: denoms}), w.route(rng))
}

// genDelegate: a vesting account (or client) delegates part of its balance (delegated vesting, C07/C17).
func (w *vestingWorld) genDelegate(r *kernel.Run, rng *kernel.Rng) *kernel.Tx {
	from, _ := w.pickVestingActor(r, rng)
	if from == "" {
		return nil
	}
	bal := r.Chain.BalanceOf(kernel.ActorAddr(from)).AmountOf(BondDenom)
	if !bal.IsPositive() {
		return nil
	}
	vals := r.Chain.App.StakingKeeper.GetAllValidators(r.Chain.Ctx())
	if len(vals) == 0 {
		return nil
	}
	amt := biasedAmount(rng, bal)
	if !amt.IsPositive() {
		amt = sdk.OneInt()
	}
	msg := &stakingtypes.MsgDelegate{DelegatorAddress: kernel.ActorBech(from), ValidatorAddress: vals[rng.Intn(len(vals))].OperatorAddress, Amount: sdk.NewCoin(BondDenom, amt)}
	return msgTx(from, msg, "")
}

func (w *vestingWorld) txGens(weights map[string]int) []TxGen {
	var gens []TxGen
	add := func(name string, g TxGen) {
		n, ok := weights[name]
		if !ok {
			n = 1
		}
		for i := 0; i < n; i++ {
			gens = append(gens, g)
		}
	}
	add("createPool", w.genCreatePool)
	add("send", w.genSend)
	add("withdraw", w.genWithdraw)
	add("createVestingAccount", w.genCreateVestingAccount)
	add("split", w.genSplit)
	add("move", w.genMove)
	add("delegate", w.genDelegate)
	add("govDenom", w.genGovDenom)
	if weights["sigCreateAccount"] > 0 {
		add("sigCreateAccount", w.genSigCreateAccount)
	}
	return gens
}

// boundaryCadence: mostly small steps, often landing exactly on / 1ns around an interesting instant.
func (w *vestingWorld) cadence(r *kernel.Run, rng *kernel.Rng) int64 {
	now := r.Chain.Now
	if rng.P(0.35) && len(w.LockEnds) > 0 {
		// nearest future instant
		var best time.Time
		for _, t := range w.LockEnds {
			if t.After(now) && (best.IsZero() || t.Before(best)) {
				best = t
			}
		}
		if !best.IsZero() {
			target := best
			switch rng.Intn(5) {
			case 0:
				target = best.Add(-time.Nanosecond)
			case 1:
				target = best.Add(time.Nanosecond)
			case 2:
				target = best.Add(time.Second)
			}
			if target.After(now) {
				return int64(target.Sub(now))
			}
		}
	}
	switch rng.Intn(12) {
	case 0:
		return 1
	case 1:
		return int64(time.Duration(rng.Range(1, 100)) * time.Hour)
	case 2:
		return int64(time.Duration(rng.Range(1, 3000)) * time.Second)
	}
	return int64(5*time.Second) + rng.I64n(int64(2*time.Second))
}

// genSigCreateAccount: the signature module's account creation aimed at addresses in every state
// (absent, base account without/with key, vesting account, module account), from any signer.
func (w *vestingWorld) genSigCreateAccount(r *kernel.Run, rng *kernel.Rng) *kernel.Tx {
	creator := w.Clients[rng.Intn(len(w.Clients))]
	// the target is an actor (so that its own public key can be presented) or a keyless address
	targetActor := ""
	var target string
	switch rng.Intn(7) {
	case 0:
		targetActor = w.fresh()
	case 1, 2:
		targetActor = w.Clients[rng.Intn(len(w.Clients))]
	case 3, 4:
		if len(w.VestActors) > 0 {
			targetActor = w.VestActors[rng.Intn(len(w.VestActors))]
		} else {
			targetActor = creator
		}
	case 5:
		target = kernel.ModuleAddr(vtypes.ModuleName).String()
	default:
		target = "not-an-address"
	}
	if targetActor != "" {
		target = kernel.ActorBech(targetActor)
	}
	keyOwner := creator
	switch {
	case targetActor != "" && rng.P(0.6):
		keyOwner = targetActor // the address's real key
	case rng.Bool():
		keyOwner = "attacker-key"
	}
	pkJSON, err := kernel.Enc().Marshaler.MarshalInterfaceJSON(kernel.ActorKey(keyOwner).PubKey())
	if err != nil {
		return nil
	}
	pk := string(pkJSON)
	if rng.Intn(10) == 0 {
		pk = "{not json"
	}
	msg := &sigtypes.MsgCreateAccount{Creator: kernel.ActorBech(creator), AccAddressString: target, PubKeyString: pk}
	return msgTx(creator, msg, "sig")
}

// genGovDenom: governance (message router, gov authority) tries to change the vesting denomination. The module refuses
// that while any pool exists; before the first pool it is a legitimate change and later pools live in the new denom.
func (w *vestingWorld) genGovDenom(r *kernel.Run, rng *kernel.Rng) *kernel.Tx {
	if !rng.P(0.3) {
		return nil
	}
	denoms := append([]string{BondDenom}, w.ExtraDenoms...)
	t := msgTx(w.Clients[0], &vtypes.MsgUpdateDenomParam{Authority: gov(), Denom: denoms[rng.Intn(len(denoms))]}, "direct")
	if t != nil {
		t.Note = "gov-denom-update"
	}
	return t
}

// respell: now and then one address field of a vesting message is written in the other valid spelling of the same
// bech32 string (all upper case). It decodes to the same account and the signer is the same; only the string differs.
func respell(rng *kernel.Rng, msg sdk.Msg) sdk.Msg {
	if !rng.P(0.06) {
		return msg
	}
	up := func(s *string) { *s = strings.ToUpper(*s) }
	second := rng.Bool()
	switch t := msg.(type) {
	case *vtypes.MsgCreateVestingPool:
		up(&t.Owner)
	case *vtypes.MsgWithdrawAllAvailable:
		up(&t.Owner)
	case *vtypes.MsgSendToVestingAccount:
		if second {
			up(&t.ToAddress)
		} else {
			up(&t.Owner)
		}
	case *vtypes.MsgCreateVestingAccount:
		if second {
			up(&t.ToAddress)
		} else {
			up(&t.FromAddress)
		}
	case *vtypes.MsgSplitVesting:
		if second {
			up(&t.ToAddress)
		} else {
			up(&t.FromAddress)
		}
	case *vtypes.MsgMoveAvailableVesting:
		if second {
			up(&t.ToAddress)
		} else {
			up(&t.FromAddress)
		}
	case *vtypes.MsgMoveAvailableVestingByDenoms:
		if second {
			up(&t.ToAddress)
		} else {
			up(&t.FromAddress)
		}
	}
	return msg
}
