package checks

import (
	"crypto/sha256"
	"encoding/hex"
	"encoding/json"
	"fmt"
	"math"
	"runtime"
	"sort"
	"strings"
	"time"

	disttypes "github.com/chain4energy/c4e-chain/x/cfedistributor/types"
	sdk "github.com/cosmos/cosmos-sdk/types"

	"verifsim/kernel"
)

func mathPow(b, e float64) float64 { return math.Pow(b, e) }

const BondDenom = "uc4e"

var baseGenesisTime = time.Date(2024, 1, 1, 0, 0, 0, 0, time.UTC)

// genGenesisTime varies the genesis instant (sub-second parts matter for millisecond truncation).
func genGenesisTime(r *kernel.Rng) time.Time {
	t := baseGenesisTime.Add(time.Duration(r.I64n(int64(400*24*time.Hour))) * 1)
	switch r.Intn(3) {
	case 0:
		return t.Truncate(time.Second)
	case 1:
		return t.Truncate(time.Millisecond)
	}
	return t
}

// baseSpec: n clients with balances in the bond denom (and optional extra denoms), validators delegated by client-0.
func baseSpec(r *kernel.Rng, nClients int, extraDenoms []string, maxExp int) *kernel.WorldSpec {
	spec := &kernel.WorldSpec{
		GenesisTime:     genGenesisTime(r),
		NumVals:         r.Range(1, 3),
		BondDenom:       BondDenom,
		ValTokens:       "1000000",
		VotingPeriodSec: 3600,
	}
	for i := 0; i < nClients; i++ {
		name := kernel.ClientName(i)
		spec.Clients = append(spec.Clients, name)
		coins := sdk.NewCoins(sdk.NewCoin(BondDenom, sdk.NewIntFromBigInt(r.BigLogUniform(maxExp)).AddRaw(1000)))
		for _, d := range extraDenoms {
			if r.Bool() {
				coins = coins.Add(sdk.NewCoin(d, sdk.NewIntFromBigInt(r.BigLogUniform(maxExp))))
			}
		}
		spec.Balances = append(spec.Balances, kernel.BalSpec{Actor: name, Coins: coins.String()})
	}
	return spec
}

// simpleDistributor: everything from MAIN goes to one base account, no burn.
func simpleDistributorJSON(destBech string) json.RawMessage {
	gs := disttypes.GenesisState{Params: disttypes.Params{SubDistributors: []disttypes.SubDistributor{{
		Name:    "sink",
		Sources: []*disttypes.Account{{Id: "", Type: disttypes.Main}},
		Destinations: disttypes.Destinations{
			PrimaryShare: disttypes.Account{Id: destBech, Type: disttypes.BaseAccount},
			BurnShare:    sdk.ZeroDec(),
		},
	}}}}
	return kernel.Enc().Marshaler.MustMarshalJSON(&gs)
}

func fingerprint(parts ...interface{}) string {
	h := sha256.New()
	for _, p := range parts {
		fmt.Fprintf(h, "%v|", p)
	}
	return hex.EncodeToString(h.Sum(nil))[:20]
}

// bucket maps a count to a coarse class so fingerprints measure shapes, not sizes.
func bucket(n int64) string {
	switch {
	case n == 0:
		return "0"
	case n == 1:
		return "1"
	case n <= 3:
		return "2-3"
	case n <= 10:
		return "4-10"
	}
	return ">10"
}

func statsClasses(s *kernel.Stats, prefixes ...string) string {
	keys := make([]string, 0)
	for k := range s.Counters {
		for _, p := range prefixes {
			if strings.HasPrefix(k, p) {
				keys = append(keys, k)
				break
			}
		}
	}
	sort.Strings(keys)
	var sb strings.Builder
	for _, k := range keys {
		sb.WriteString(k + "=" + bucket(s.Counters[k]) + ";")
	}
	return sb.String()
}

// listSource replays recorded blocks.
type listSource struct {
	blocks []kernel.Block
	bi     int
	ti     int
}

func (l *listSource) NextBlock(r *kernel.Run) *kernel.Block {
	if l.bi >= len(l.blocks) {
		return nil
	}
	b := &l.blocks[l.bi]
	l.bi++
	l.ti = 0
	return b
}
func (l *listSource) NextTx(r *kernel.Run, b *kernel.Block) *kernel.Tx {
	if l.ti >= len(b.Txs) {
		return nil
	}
	t := &b.Txs[l.ti]
	l.ti++
	return t
}

func uniqSortedTimes(ts []time.Time) []time.Time {
	sort.Slice(ts, func(i, j int) bool { return ts[i].Before(ts[j]) })
	out := ts[:0]
	for i, t := range ts {
		if i == 0 || !t.Equal(out[len(out)-1]) {
			out = append(out, t)
		}
	}
	return out
}

func decStr(d sdk.Dec) string {
	if d.IsNil() {
		return "nil"
	}
	return d.String()
}

func mustJSON(v interface{}) json.RawMessage {
	bz, err := json.Marshal(v)
	if err != nil {
		panic(err)
	}
	return bz
}

// reportHalt turns a panic that escaped BeginBlock/EndBlock/Commit into a C10 violation when it passed through
// the repository's code; a panic elsewhere is a harness/generator problem (exit 2), not a violation.
func reportHalt(r *kernel.Run) {
	pi := r.Chain.Halted
	if pi == nil {
		return
	}
	if pi.InRepoBlockLogic() {
		r.Violate("C10", "block-panic", "panic:"+pi.Site(), "%s panicked at %s: %s", pi.Where, r.Chain.Now.Format(time.RFC3339Nano), firstLineOf(pi.Value))
	} else {
		r.InfraErr = fmt.Errorf("panic outside the repository's block logic in %s: %s\n%s", pi.Where, pi.Value, pi.Stack)
	}
}

func firstLineOf(s string) string {
	if i := strings.IndexByte(s, '\n'); i >= 0 {
		s = s[:i]
	}
	if len(s) > 240 {
		s = s[:240]
	}
	return s
}

type jsonRaw = json.RawMessage

// coinsEq compares coin sets without sdk.Coins.IsEqual (which panics on differing denominations).
func coinsEq(a, b sdk.Coins) bool {
	return sdk.NewCoins(a...).String() == sdk.NewCoins(b...).String()
}

func errGenesis(pi *kernel.PanicInfo) error {
	return fmt.Errorf("generated genesis rejected by InitChain: %s", pi.Value)
}

func runtimeStack(buf []byte) int { return runtime.Stack(buf, false) }

// traceKinds: the set of (message type, route) pairs and fault kinds of a trace plus the shape of its configuration;
// used in run fingerprints so that "distinct" counts different histories, not different sizes.
func traceKinds(tr *kernel.Trace) string {
	if tr == nil {
		return ""
	}
	seen := map[string]bool{}
	for _, b := range tr.Blocks {
		for _, t := range b.Txs {
			k := t.Note
			for _, m := range t.Msgs {
				s := string(m)
				if i := indexOf(s, "@type"); i >= 0 {
					e := s[i:]
					if j := indexOf(e, ","); j > 0 {
						e = e[:j]
					}
					k += e
				}
			}
			seen[k+"/"+t.Route] = true
		}
		if b.Crash != 0 {
			seen["crash"] = true
		}
		if b.Export {
			seen["export"] = true
		}
		if len(b.BankFail) > 0 {
			seen["bankfail"] = true
		}
	}
	out := ""
	for _, k := range kernel.SortedKeys(seen) {
		out += k + ";"
	}
	var gs disttypes.GenesisState
	if len(tr.Spec.Distributor) > 0 && kernel.Enc().Marshaler.UnmarshalJSON(tr.Spec.Distributor, &gs) == nil {
		out += distShape(gs.Params)
	}
	return out
}

func jsonUnmarshal(bz []byte, v interface{}) error {
	if len(bz) == 0 {
		return nil
	}
	return json.Unmarshal(bz, v)
}

func bytesEqual(a, b []byte) bool { return string(a) == string(b) }

// dropJSONKeys removes the named keys at any depth of a JSON document (sparse genesis sections).
func dropJSONKeys(doc json.RawMessage, keys ...string) json.RawMessage {
	if len(doc) == 0 {
		return doc
	}
	var v interface{}
	if err := json.Unmarshal(doc, &v); err != nil {
		return doc
	}
	drop := map[string]bool{}
	for _, k := range keys {
		drop[k] = true
	}
	var walk func(x interface{}) interface{}
	walk = func(x interface{}) interface{} {
		switch t := x.(type) {
		case map[string]interface{}:
			for k := range t {
				if drop[k] {
					delete(t, k)
				} else {
					t[k] = walk(t[k])
				}
			}
			return t
		case []interface{}:
			for i := range t {
				t[i] = walk(t[i])
			}
			return t
		}
		return x
	}
	out, err := json.Marshal(walk(v))
	if err != nil {
		return doc
	}
	return out
}
