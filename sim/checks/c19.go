package checks

import (
	"math/big"
	"sort"
	"time"

	mintertypes "github.com/chain4energy/c4e-chain/x/cfeminter/types"
	sdk "github.com/cosmos/cosmos-sdk/types"
	abci "github.com/tendermint/tendermint/abci/types"

	"verifsim/kernel"
	"verifsim/models"
)

// C19 — reported inflation equals the actual annualised emission rate.
//
// Pairs of consecutive millisecond-aligned blocks inside one step of one period: what the chain mints over the
// pair is compared with inflation (real ABCI Inflation query after the first block) x supply x dt / year.
// Inflation must be zero before the start time and in no-minting periods.

func init() {
	Register(&Prop{
		ID:    "C19",
		Level: "exploration",
		Rule: "one run = one valid minter configuration (generator of C02) and 3-8 measuring pairs of millisecond-aligned blocks placed inside single steps (first and later steps of exponential periods, linear periods with " +
			"aligned and unaligned bounds, before the start, inside no-minting periods, right after period ends); non-trivial = at least one pair with expected mint >= 100 units was measured; " +
			"distinct = hash of the kinds of periods measured, probes and outcome",
		Quick:      Tier{Runs: 4000, BudgetSec: 50},
		Thorough:   Tier{Runs: 80000, BudgetSec: 780},
		RunSeed:    c19RunSeed,
		Replay:     c19Replay,
		Real:       []string{"app.App BeginBlock/EndBlock/Commit and ABCI Query (gRPC query router)", "x/cfeminter keeper, types and Inflation query", "x/bank supply"},
		Stub:       []string{"Tendermint consensus/p2p/mempool"},
		Assumes:    []string{"tolerance = 1 unit (two floors) + 1e-18*supply*dt/year (query precision) + 2ms/period-length relative for linear periods with unaligned bounds", "a year is 365 days", "no parameter updates in this profile"},
		FaultKinds: []string{"F-clock (measuring intervals at the first instant of a step, right after hand-over, before start)"},
	})
}

func msAlign(t time.Time) time.Time { return t.Truncate(time.Millisecond) }

func c19RunSeed(seed uint64, tier string) *Outcome {
	r := kernel.NewRng(seed)
	spec := baseSpec(r.Fork(1), 2, nil, 18)
	spec.GenesisTime = msAlign(spec.GenesisTime)
	horizon := c02Horizon(r)
	params, err := GenMinterParams(r.Fork(2), spec.GenesisTime, BondDenom, MinterGenCfg{MaxPeriods: 5, MaxAmountExp: 30, MaxStepsHint: 800, Horizon: horizon, AllowNone: true})
	if err != nil {
		return &Outcome{InfraErr: err}
	}
	spec.Minter = MinterGenesisJSON(params, spec.GenesisTime)
	spec.Distributor = simpleDistributorJSON(kernel.ActorBech(kernel.ClientName(1)))
	model, err := MintModelFrom(params)
	if err != nil {
		return &Outcome{InfraErr: err}
	}
	g := spec.GenesisTime
	end := g.Add(horizon)
	rc := r.Fork(3)
	// anchors: random instants and instants right at / after schedule boundaries
	var anchors []time.Time
	bounds := model.Boundaries(end, 30)
	na := rc.Range(3, 8)
	for i := 0; i < na; i++ {
		var t time.Time
		if len(bounds) > 0 && rc.P(0.45) {
			b := bounds[rc.Intn(len(bounds))]
			switch rc.Intn(3) {
			case 0:
				t = b
			case 1:
				t = b.Add(time.Millisecond)
			default:
				t = b.Add(-time.Duration(rc.Range(1, 5000)) * time.Millisecond)
			}
		} else {
			t = g.Add(time.Duration(rc.I64n(int64(horizon))))
		}
		t = msAlign(t)
		if t.After(g) && t.Before(end) {
			anchors = append(anchors, t)
		}
	}
	anchors = uniqSortedTimes(anchors)
	var times []time.Time
	last := g
	for _, t1 := range anchors {
		if !t1.After(last) {
			continue
		}
		// interval inside the step that contains t1
		pi := model.PeriodIndexAt(t1)
		p := model.Periods[pi]
		ps := model.PeriodStart(pi)
		limit := end
		if p.End != nil && p.End.Before(limit) {
			limit = *p.End
		}
		var rate *big.Rat // units per ns
		switch p.Kind {
		case models.MintLinear:
			rate = new(big.Rat).SetFrac(p.Amount, big.NewInt(p.End.Sub(ps).Nanoseconds()))
		case models.MintExp:
			if t1.Before(ps) {
				break
			}
			n := t1.Sub(ps).Nanoseconds() / p.StepNs
			stepEnd := ps.Add(time.Duration((n + 1) * p.StepNs))
			if stepEnd.Before(limit) {
				limit = stepEnd
			}
			amt := new(big.Rat).SetInt(p.Amount)
			for j := int64(0); j < n; j++ {
				amt.Mul(amt, p.Mult)
			}
			rate = amt.Quo(amt, new(big.Rat).SetInt64(p.StepNs))
		}
		room := limit.Sub(t1) - time.Millisecond
		if room < time.Millisecond {
			continue
		}
		dt := time.Duration(rc.I64n(int64(room))) + time.Millisecond
		if rate != nil && rate.Sign() > 0 {
			// aim at >= 100 units
			need := new(big.Rat).Quo(big.NewRat(100, 1), rate)
			nf, _ := need.Float64()
			if nf < float64(room) && rc.P(0.8) {
				lo := time.Duration(nf) + time.Millisecond
				dt = lo + time.Duration(rc.I64n(int64(room-lo)+1))
			}
		}
		dt = dt.Truncate(time.Millisecond)
		if dt < time.Millisecond {
			dt = time.Millisecond
		}
		t2 := t1.Add(dt)
		if !t2.Before(limit) || !t2.After(t1) {
			continue
		}
		times = append(times, t1, t2)
		last = t2
	}
	if len(times) == 0 {
		times = append(times, msAlign(g.Add(time.Second)), msAlign(g.Add(2*time.Second)))
	}
	sort.Slice(times, func(i, j int) bool { return times[i].Before(times[j]) })
	tr := &kernel.Trace{Profile: "C19", Seed: seed, Spec: *spec}
	prev := g
	for _, t := range times {
		if t.After(prev) {
			tr.Blocks = append(tr.Blocks, kernel.Block{DtNs: t.Sub(prev).Nanoseconds()})
			prev = t
		}
	}
	return c19Replay(tr)
}

type c19Monitor struct {
	kernel.NopMonitor
	model  *models.MintModel
	evals  int64
	have   bool
	t1     time.Time
	infl   *big.Rat
	supply sdk.Int
	kinds  map[string]bool
	evInfl string // the inflation the Mint event of the current block reported ("" = no Mint event)
}

var yearNs = big.NewInt(int64(365 * 24 * time.Hour))

func (m *c19Monitor) AfterCommit(r *kernel.Run) {
	c := r.Chain
	m.have = false
	req := mintertypes.QueryInflationRequest{}
	bz, _ := req.Marshal()
	resp, pi := c.Query("/chain4energy.c4echain.cfeminter.Query/Inflation", bz)
	if pi != nil {
		r.Violate("C20", "query-panic", "panic:"+pi.Site(), "Inflation query panicked: %s", firstLineOf(pi.Value))
		return
	}
	if resp.Code != 0 {
		r.Violate("C19", "inflation-query", "inflation-query-error", "Inflation query failed at %s: %s", c.Now.Format(time.RFC3339Nano), resp.Log)
		return
	}
	var out mintertypes.QueryInflationResponse
	if err := out.Unmarshal(resp.Value); err != nil {
		r.InfraErr = err
		return
	}
	m.evals++
	T := c.Now
	// the Mint event of this block reports the inflation too: same state (nothing burns or mints after the minter's
	// BeginBlock in this profile), so the same figure
	if m.evInfl != "" {
		m.evals++
		if ev, err := sdk.NewDecFromStr(m.evInfl); err == nil {
			if !ev.Equal(out.Inflation) {
				r.Violate("C19", "event-vs-query", "mint-event-inflation-differs-from-query", "at %s the Mint event of the block reports inflation %s, the Inflation query on the state of that block %s", T.Format(time.RFC3339Nano), ev, out.Inflation)
			}
			r.Stats.Inc("probe.mint_event_inflation_compared")
		}
		m.evInfl = ""
	}
	infl := new(big.Rat).SetFrac(out.Inflation.BigInt(), bigE18)
	// zero before the start and in no-minting periods
	pi2 := m.model.PeriodIndexAt(T)
	kind := m.model.Periods[pi2].Kind
	if T.Before(m.model.Start) {
		r.Stats.Inc("probe.inflation_before_start")
		if infl.Sign() != 0 {
			r.Violate("C19", "zero-inflation", "nonzero-before-start", "inflation %s reported at %s, before the start time %s", out.Inflation, T.Format(time.RFC3339Nano), m.model.Start.Format(time.RFC3339Nano))
		}
	} else if kind == models.MintNone {
		r.Stats.Inc("probe.inflation_in_no_minting_period")
		if infl.Sign() != 0 {
			r.Violate("C19", "zero-inflation", "nonzero-in-no-minting", "inflation %s reported at %s inside a no-minting period", out.Inflation, T.Format(time.RFC3339Nano))
		}
	}
	m.have = true
	m.t1 = T
	m.infl = infl
	m.supply = c.Supply().AmountOf(BondDenom)
}

func (m *c19Monitor) AfterBegin(r *kernel.Run, resp abci.ResponseBeginBlock) {
	c := r.Chain
	if c.Halted != nil {
		reportHalt(r)
		return
	}
	m.evInfl = ""
	for _, ev := range kernel.EventAttrs(resp.Events, "chain4energy.c4echain.cfeminter.Mint") {
		m.evInfl = trimQuotes(ev["inflation"])
	}
	if !m.have {
		return
	}
	T1, T2 := m.t1, c.Now
	if T1.Nanosecond()%1e6 != 0 || T2.Nanosecond()%1e6 != 0 {
		return
	}
	if T1.Before(m.model.Start) {
		return
	}
	pi := m.model.PeriodIndexAt(T1)
	if m.model.PeriodIndexAt(T2) != pi {
		return
	}
	p := m.model.Periods[pi]
	ps := m.model.PeriodStart(pi)
	if p.Kind == models.MintExp {
		if T1.Sub(ps).Nanoseconds()/p.StepNs != T2.Sub(ps).Nanoseconds()/p.StepNs {
			return
		}
	}
	minted := sdk.ZeroInt()
	for _, ev := range kernel.EventAttrs(resp.Events, "chain4energy.c4echain.cfeminter.Mint") {
		if a, ok := sdk.NewIntFromString(trimQuotes(ev["amount"])); ok {
			minted = minted.Add(a)
		}
	}
	supplyDelta := c.Supply().AmountOf(BondDenom).Sub(m.supply)
	if !supplyDelta.Equal(minted) {
		// no burn and no other minter in this profile: the event and the supply must agree (C18/C01 territory, but the measurement depends on it)
		minted = supplyDelta
	}
	m.evals++
	dt := big.NewInt(T2.Sub(T1).Nanoseconds())
	// expected = inflation * supply * dt / year
	exp := new(big.Rat).Mul(m.infl, new(big.Rat).SetInt(m.supply.BigInt()))
	exp.Mul(exp, new(big.Rat).SetFrac(dt, yearNs))
	// tolerance
	tol := big.NewRat(1, 1)
	q := new(big.Rat).SetFrac(new(big.Int).Mul(m.supply.BigInt(), dt), new(big.Int).Mul(yearNs, bigE18))
	tol.Add(tol, q)
	tol.Add(tol, big.NewRat(1, 1000))
	if p.Kind == models.MintLinear {
		unaligned := ps.Nanosecond()%1e6 != 0 || p.End.Nanosecond()%1e6 != 0
		if unaligned {
			rel := new(big.Rat).SetFrac(big.NewInt(int64(2*time.Millisecond)), big.NewInt(p.End.Sub(ps).Nanoseconds()))
			tol.Add(tol, new(big.Rat).Mul(exp, rel))
			r.Stats.Inc("probe.pair_in_unaligned_linear_period")
		} else {
			r.Stats.Inc("probe.pair_in_aligned_linear_period")
		}
	}
	if p.Kind == models.MintExp {
		n := T1.Sub(ps).Nanoseconds() / p.StepNs
		if n == 0 {
			r.Stats.Inc("probe.pair_in_first_exp_step")
		} else {
			r.Stats.Inc("probe.pair_in_later_exp_step")
		}
		// chain of rounded multiplications: n * 0.5e-18 per unit of step amount, negligible but accounted
		tol.Add(tol, new(big.Rat).SetFrac(big.NewInt(n+1), big.NewInt(1_000_000_000)))
	}
	diff := new(big.Rat).Sub(new(big.Rat).SetInt(minted.BigInt()), exp)
	diff.Abs(diff)
	if exp.Cmp(big.NewRat(100, 1)) >= 0 {
		r.Stats.Inc("probe.pair_with_expected_mint_ge_100")
	}
	m.kinds[[]string{"none", "linear", "exp"}[p.Kind]] = true
	if diff.Cmp(tol) > 0 {
		r.Violate("C19", "inflation-vs-mint", "inflation-differs-from-emission:"+[]string{"none", "linear", "exp"}[p.Kind], "between %s and %s the chain minted %s, reported inflation %s x supply %s x dt/year = %s (tolerance %s)",
			T1.Format(time.RFC3339Nano), T2.Format(time.RFC3339Nano), minted, m.infl.FloatString(18), m.supply, exp.FloatString(3), tol.FloatString(3))
	}
}

func c19Replay(tr *kernel.Trace) *Outcome {
	mon := &c19Monitor{kinds: map[string]bool{}}
	o := &Outcome{Trace: tr}
	spec := tr.Spec
	run := &kernel.Run{Spec: &spec, Monitors: []kernel.Monitor{mon}, StopOnViolation: true}
	if pi := run.Start(); pi != nil || run.InfraErr != nil {
		if run.InfraErr != nil {
			o.InfraErr = run.InfraErr
		} else {
			o.InfraErr = errGenesis(pi)
		}
		return o
	}
	params := run.Chain.MinterParams()
	model, err := MintModelFrom(params)
	if err != nil {
		o.InfraErr = err
		return o
	}
	mon.model = model
	run.Drive(&listSource{blocks: tr.Blocks})
	o.Stats.Merge(&run.Stats)
	o.Violations = run.Violations
	o.InfraErr = run.InfraErr
	o.Evals = mon.evals
	o.Nontrivial = o.Stats.Counters["probe.pair_with_expected_mint_ge_100"] > 0
	ks := ""
	for _, k := range kernel.SortedKeys(mon.kinds) {
		ks += k + ","
	}
	o.Fingerprint = fingerprint(ks, statsClasses(&o.Stats, "probe."), len(o.Violations) > 0)
	o.Sample = map[string]interface{}{"seed": tr.Seed, "blocks": len(tr.Blocks), "period_kinds_measured": ks, "pairs_ge_100": o.Stats.Counters["probe.pair_with_expected_mint_ge_100"]}
	return o
}
