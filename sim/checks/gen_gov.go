package checks

import (
	"fmt"
	"time"

	appparams "github.com/chain4energy/c4e-chain/app/params"
	disttypes "github.com/chain4energy/c4e-chain/x/cfedistributor/types"
	mintertypes "github.com/chain4energy/c4e-chain/x/cfeminter/types"
	vtypes "github.com/chain4energy/c4e-chain/x/cfevesting/types"
	codectypes "github.com/cosmos/cosmos-sdk/codec/types"
	sdk "github.com/cosmos/cosmos-sdk/types"
	govv1 "github.com/cosmos/cosmos-sdk/x/gov/types/v1"

	"verifsim/kernel"
)

// govWorld generates parameter-update traffic: the seven update messages with valid, invalid and partially valid
// payloads, travelling as attacker transactions, real x/gov proposals (submit + vote, executed when the simulated
// voting period ends) and direct handler calls.
type govWorld struct {
	OddNames   bool     // governance payloads may carry names that are not valid UTF-8
	Voter      string   // the genesis delegator (holds all bonded stake)
	Attackers  []string // other clients
	DistCfg    DistGenCfg
	MinterCfg  MinterGenCfg
	SaneMinter bool // keep applied minter updates inside C10's magnitudes
	toVote     []uint64
}

func gov() string { return appparams.GetAuthority() }

// --- payloads ------------------------------------------------------------------------------------

// minterUpdate derives an update from the stored parameters: a fresh valid schedule that still contains the
// current period, start/end times moved into the past or future, amounts changed, the current period dropped (must be refused).
func (g *govWorld) minterUpdate(r *kernel.Run, rng *kernel.Rng, authority string) sdk.Msg {
	c := r.Chain
	cur := c.MinterParams()
	st := c.App.CfeminterKeeper.GetMinterState(c.Ctx())
	now := c.Now
	var p mintertypes.Params
	reversed := false
	switch rng.Intn(7) {
	case 0, 1:
		// brand-new schedule around now (sequence ids start at 1; valid only while the current id is among them)
		np, err := GenMinterParams(rng, now, cur.MintDenom, g.MinterCfg)
		if err != nil {
			return nil
		}
		if rng.Bool() {
			// renumber so that the current period exists
			base := st.SequenceId
			if base < 1 {
				base = 1
			}
			off := uint32(0)
			if int(base) > len(np.Minters) {
				off = base - uint32(len(np.Minters))
			}
			for i, m := range np.Minters {
				m.SequenceId = uint32(i+1) + off
			}
		}
		p = np
	case 2:
		// shift the whole schedule in time
		p = cloneMinterParams(cur)
		d := time.Duration(rng.Range(-400, 400)) * time.Hour
		if rng.Bool() {
			d = time.Duration(rng.Range(-30, 30)) * time.Second
		}
		p.StartTime = p.StartTime.Add(d)
		for _, m := range p.Minters {
			if m.EndTime != nil {
				e := m.EndTime.Add(d)
				m.EndTime = &e
			}
		}
	case 3:
		// move boundaries so that the current period's end lands just around now
		p = cloneMinterParams(cur)
		for _, m := range p.Minters {
			if m.SequenceId == st.SequenceId && m.EndTime != nil {
				e := now.Add(time.Duration(rng.Range(-5, 5)) * time.Second)
				m.EndTime = &e
			}
		}
	case 4:
		// change amounts / multipliers of every period
		p = cloneMinterParams(cur)
		for _, m := range p.Minters {
			switch cfg := m.Config.GetCachedValue().(type) {
			case *mintertypes.LinearMinting:
				any, _ := codectypes.NewAnyWithValue(&mintertypes.LinearMinting{Amount: sdk.NewIntFromBigInt(rng.BigLogUniform(g.MinterCfg.MaxAmountExp))})
				m.Config = any
			case *mintertypes.ExponentialStepMinting:
				any, _ := codectypes.NewAnyWithValue(&mintertypes.ExponentialStepMinting{Amount: sdk.NewIntFromBigInt(rng.BigLogUniform(g.MinterCfg.MaxAmountExp)), AmountMultiplier: genMultiplier(rng), StepDuration: cfg.StepDuration})
				m.Config = any
			}
		}
	default:
		// a schedule that is valid on its own but does not contain the current period (ids just below or just above it):
		// must be refused, the stored schedule must stay
		np, err := GenMinterParams(rng, now, cur.MintDenom, g.MinterCfg)
		if err != nil {
			return nil
		}
		ms := append([]*mintertypes.Minter(nil), np.Minters...)
		for i := 0; i < len(ms); i++ { // ascending by the generated ids
			for j := i + 1; j < len(ms); j++ {
				if ms[j].SequenceId < ms[i].SequenceId {
					ms[i], ms[j] = ms[j], ms[i]
				}
			}
		}
		n := uint32(len(ms))
		first := st.SequenceId + 1
		if st.SequenceId > n && rng.Bool() {
			first = st.SequenceId - n
		}
		for i, m := range ms {
			m.SequenceId = first + uint32(i)
		}
		p = np
		if first < st.SequenceId && rng.P(0.6) {
			// listed from the highest id down (validation accepts any order; real governance re-encodes the
			// message after ValidateBasic sorted it, a direct caller of the message server does not)
			for i, m := range ms {
				p.Minters[len(ms)-1-i] = m
			}
			reversed = true
		}
	}
	if g.SaneMinter && authority == gov() && !minterParamsSane(p) {
		return nil
	}
	// the payload may list the periods in any order
	if !reversed && rng.P(0.4) && len(p.Minters) > 1 {
		rng.Shuffle(len(p.Minters), func(i, j int) { p.Minters[i], p.Minters[j] = p.Minters[j], p.Minters[i] })
	}
	if len(p.Minters) > 0 && authority == gov() {
		contains := false
		for _, m := range p.Minters {
			if m.SequenceId == st.SequenceId {
				contains = true
			}
		}
		f := p.Minters[0].SequenceId
		if !contains && st.SequenceId >= f && st.SequenceId-f < uint32(len(p.Minters)) {
			r.Stats.Inc("probe.gov_update_without_current_period_listed_out_of_order")
		} else if !contains {
			r.Stats.Inc("probe.gov_update_without_current_period")
		}
	}
	if rng.Bool() {
		return &mintertypes.MsgUpdateMintersParams{Authority: authority, StartTime: p.StartTime, Minters: p.Minters}
	}
	denom := cur.MintDenom
	if rng.P(0.5) {
		// switch the mint denomination: one that exists already, or one nobody holds yet (zero supply)
		denom = []string{BondDenom, "aaa", "zzz", "unewmint"}[rng.Intn(4)]
	}
	return &mintertypes.MsgUpdateParams{Authority: authority, MintDenom: denom, StartTime: p.StartTime, Minters: p.Minters}
}

func cloneMinterParams(p mintertypes.Params) mintertypes.Params {
	bz := kernel.Enc().Marshaler.MustMarshal(&p)
	var c mintertypes.Params
	kernel.Enc().Marshaler.MustUnmarshal(bz, &c)
	return c
}

func (g *govWorld) distUpdate(r *kernel.Run, rng *kernel.Rng, authority string) sdk.Msg {
	c := r.Chain
	cur := c.DistParams()
	switch rng.Intn(5) {
	case 0:
		np, err := GenDistParams(rng, g.DistCfg)
		if err != nil {
			return nil
		}
		if g.OddNames && len(np.SubDistributors) > 0 && rng.Intn(5) == 0 {
			// a name that is not valid UTF-8 (fine on the wire, not in the JSON genesis)
			if rng.Intn(4) == 0 {
				np.SubDistributors[0].Name += "\xff"
			} else {
				// the id of a MAIN-type account is never used, but it is stored and exported
				for _, src := range np.SubDistributors[0].Sources {
					if src != nil && src.Type == disttypes.Main {
						src.Id = "main\xff"
					}
				}
				if np.SubDistributors[0].Destinations.PrimaryShare.Type == disttypes.Main {
					np.SubDistributors[0].Destinations.PrimaryShare.Id = "main\xfe"
				}
			}
		}
		return &disttypes.MsgUpdateParams{Authority: authority, SubDistributors: np.SubDistributors}
	case 1:
		// replace one sub-distributor (existing or unknown name) with a freshly generated one; the combination may break whole-configuration rules
		np, err := GenDistParams(rng, g.DistCfg)
		if err != nil || len(np.SubDistributors) == 0 {
			return nil
		}
		sd := np.SubDistributors[rng.Intn(len(np.SubDistributors))]
		if len(cur.SubDistributors) > 0 && rng.P(0.8) {
			sd.Name = cur.SubDistributors[rng.Intn(len(cur.SubDistributors))].Name
		}
		for i, sh := range sd.Destinations.Shares {
			sh.Name = fmt.Sprintf("u%d-%d", r.BlockIdx, i)
		}
		return &disttypes.MsgUpdateSubDistributorParam{Authority: authority, SubDistributor: &sd}
	case 2, 3:
		// change one share; the new value alone is legal but the sum may reach 1
		var names []string
		for _, sd := range cur.SubDistributors {
			for _, sh := range sd.Destinations.Shares {
				names = append(names, sd.Name+"|"+sh.Name)
			}
		}
		sdName, shName := "nope", "nope"
		if len(names) > 0 && rng.P(0.9) {
			x := names[rng.Intn(len(names))]
			for i := range x {
				if x[i] == '|' {
					sdName, shName = x[:i], x[i+1:]
				}
			}
		}
		switch rng.Intn(8) {
		case 0:
			// an existing sub-distributor, a destination it does not have
			if len(cur.SubDistributors) > 0 {
				sdName, shName = cur.SubDistributors[rng.Intn(len(cur.SubDistributors))].Name, "nope"
			}
		case 1:
			// ... or the destination of another sub-distributor
			if len(names) > 1 {
				y := names[rng.Intn(len(names))]
				for i := range y {
					if y[i] == '|' {
						shName = y[i+1:]
					}
				}
			}
		}
		share := genShare(rng)
		if rng.P(0.3) {
			share = sdk.NewDecWithPrec(int64(rng.Range(90, 99)), 2)
		}
		return &disttypes.MsgUpdateSubDistributorDestinationShareParam{Authority: authority, SubDistributorName: sdName, DestinationName: shName, Share: share}
	default:
		name := "nope"
		if len(cur.SubDistributors) > 0 && rng.P(0.9) {
			name = cur.SubDistributors[rng.Intn(len(cur.SubDistributors))].Name
		}
		share := genShare(rng)
		if rng.P(0.3) {
			share = sdk.NewDecWithPrec(int64(rng.Range(90, 99)), 2)
		}
		return &disttypes.MsgUpdateSubDistributorBurnShareParam{Authority: authority, SubDistributorName: name, BurnShare: share}
	}
}

func (g *govWorld) vestingUpdate(r *kernel.Run, rng *kernel.Rng, authority string) sdk.Msg {
	d := []string{BondDenom, "aaa", "zzz", "newdenom"}[rng.Intn(4)]
	return &vtypes.MsgUpdateDenomParam{Authority: authority, Denom: d}
}

func (g *govWorld) anyUpdate(r *kernel.Run, rng *kernel.Rng, authority string) sdk.Msg {
	switch rng.Intn(7) {
	case 0, 1, 2:
		return g.minterUpdate(r, rng, authority)
	case 3, 4, 5:
		return g.distUpdate(r, rng, authority)
	}
	return g.vestingUpdate(r, rng, authority)
}

// --- routes --------------------------------------------------------------------------------------

func (g *govWorld) attacker(rng *kernel.Rng) string { return g.Attackers[rng.Intn(len(g.Attackers))] }

// proposalTx wraps update messages into a real x/gov v1 proposal with enough deposit to enter the voting period.
func (g *govWorld) proposalTx(r *kernel.Run, proposer string, msgs []sdk.Msg) *kernel.Tx {
	m, err := govv1.NewMsgSubmitProposal(msgs, sdk.NewCoins(sdk.NewCoin(BondDenom, sdk.NewInt(10))), kernel.ActorBech(proposer), "verif")
	if err != nil {
		return nil
	}
	return msgTx(proposer, m, "")
}

// genGovTx: one step of governance traffic.
func (g *govWorld) genGovTx(r *kernel.Run, rng *kernel.Rng) *kernel.Tx {
	// vote on proposals in their voting period that the delegator has not voted on yet
	if rng.P(0.75) {
		ctx := r.Chain.Ctx()
		voter := kernel.ActorAddr(g.Voter)
		for _, p := range r.Chain.App.GovKeeper.GetProposals(ctx) {
			if p.Status != govv1.StatusVotingPeriod {
				continue
			}
			if _, found := r.Chain.App.GovKeeper.GetVote(ctx, p.Id, voter); found {
				continue
			}
			opt := govv1.OptionYes
			if rng.Intn(8) == 0 {
				opt = govv1.OptionNo
			}
			return msgTx(g.Voter, govv1.NewMsgVote(voter, p.Id, opt, ""), "")
		}
	}
	switch rng.Intn(10) {
	case 0:
		// (i) attacker names itself as authority
		a := g.attacker(rng)
		if m := g.anyUpdate(r, rng, kernel.ActorBech(a)); m != nil {
			t := msgTx(a, m, "")
			if t != nil {
				t.Note = "attacker-own-authority"
			}
			return t
		}
	case 1:
		// (ii) attacker signs a message that names the governance authority
		a := g.attacker(rng)
		if m := g.anyUpdate(r, rng, gov()); m != nil {
			t := msgTx(a, m, "")
			if t != nil {
				t.Note = "attacker-signs-gov-authority"
			}
			return t
		}
	case 2:
		// (iii) proposal whose message names a wrong authority
		a := g.attacker(rng)
		if m := g.anyUpdate(r, rng, kernel.ActorBech(a)); m != nil {
			t := g.proposalTx(r, a, []sdk.Msg{m})
			if t != nil {
				t.Note = "proposal-wrong-authority"
			}
			return t
		}
	case 3, 4:
		// (v) direct handler call with an arbitrary authority string
		auths := []string{gov(), gov(), kernel.ActorBech(g.attacker(rng)), "", "gov"}
		au := auths[rng.Intn(len(auths))]
		if m := g.anyUpdate(r, rng, au); m != nil {
			route, note := "direct", "direct-handler"
			if _, isVesting := m.(*vtypes.MsgUpdateDenomParam); !isVesting && rng.P(0.4) {
				route, note = "srv", "direct-message-server"
			}
			t := msgTx(g.attacker(rng), m, route)
			if t != nil {
				t.Note = note
			}
			return t
		}
	default:
		// (iv) a real proposal with the right authority
		if m := g.anyUpdate(r, rng, gov()); m != nil {
			msgs := []sdk.Msg{m}
			if rng.P(0.2) {
				if m2 := g.anyUpdate(r, rng, gov()); m2 != nil {
					msgs = append(msgs, m2)
				}
			}
			t := g.proposalTx(r, g.Voter, msgs)
			if t != nil {
				t.Note = "proposal"
			}
			return t
		}
	}
	return nil
}
