package checks

import (
	"bytes"
	"encoding/binary"
	"encoding/json"
	"fmt"
	govv1beta1 "github.com/cosmos/cosmos-sdk/x/gov/types/v1beta1"
	paramproposal "github.com/cosmos/cosmos-sdk/x/params/types/proposal"
	"math/big"
	"sort"
	"strings"
	"time"

	v120 "github.com/chain4energy/c4e-chain/app/upgrades/v120"
	distkeeper "github.com/chain4energy/c4e-chain/x/cfedistributor/keeper"
	disttypes "github.com/chain4energy/c4e-chain/x/cfedistributor/types"
	mintertypes "github.com/chain4energy/c4e-chain/x/cfeminter/types"
	vv2 "github.com/chain4energy/c4e-chain/x/cfevesting/migrations/v2"
	vtypes "github.com/chain4energy/c4e-chain/x/cfevesting/types"
	"github.com/cosmos/cosmos-sdk/store/prefix"
	sdk "github.com/cosmos/cosmos-sdk/types"
	authvesting "github.com/cosmos/cosmos-sdk/x/auth/vesting/types"
	paramstypes "github.com/cosmos/cosmos-sdk/x/params/types"
	upgradetypes "github.com/cosmos/cosmos-sdk/x/upgrade/types"

	"verifsim/kernel"
	"verifsim/models"
)

// C16 — the v1.2.0 upgrade and store migrations preserve locked value.
//
// A chain is initialised without ICA state; inside a block its stores are rewritten into the previous (v1.1.0)
// layout: v2 pool and trace records, legacy amino-JSON parameters in the x/params subspaces, module versions 2,
// no ICA version; the plan is scheduled for the next height and the real x/upgrade BeginBlocker runs the real
// handler with the real migrations.

func init() {
	Register(&Prop{
		ID:    "C16",
		Level: "exploration",
		Rule: "one run = a pre-upgrade state in the v1.1.0 layout: random owners and pools (amounts, sent/withdrawn histories), with or without the hard-coded owner, its 'Validators pool'/'Advisors pool', the 'Validators' vesting type and the four hard-coded vesting accounts, " +
			"the validators pool holding more than, exactly, or less than the 72M split total; random legacy minter and distributor parameters; old trace records; optionally a node crash in the block that prepares or the block that executes the upgrade. " +
			"Oracle after the upgrade block: sum locked and every pool's sent/withdrawn unchanged, module balance == sum locked, split applied to all four pools with the validators pool reduced by exactly their sum or nothing changed, shifted accounts keep amounts and move exactly one year, " +
			"all other accounts byte-identical, migrated parameters validate and describe the same schedule/shares (M-mint/M-dist built from legacy and migrated parameters agree), traces keep id/address, the chain keeps producing blocks. " +
			"non-trivial = the upgrade handler ran with at least one pool; distinct = hash of precondition variant, split outcome, crash point and outcome",
		Quick:      Tier{Runs: 3000, BudgetSec: 55},
		Thorough:   Tier{Runs: 15000, BudgetSec: 780},
		RunSeed:    c16RunSeed,
		Replay:     c16Replay,
		Real:       []string{"x/upgrade BeginBlocker executing the registered v1.2.0 handler", "module.Manager.RunMigrations with the real cfevesting/cfeminter/cfedistributor 2->3 migrations", "app/upgrades/v120 pool split, trace update, account shift", "ICA InitModule", "IAVL stores, Commit, restart after a crash"},
		Stub:       []string{"Tendermint", "the pre-upgrade binary: the v1.1.0 store layout is written by the harness from the repository's own legacy types", "upgrade-info.json / store loader (all stores already exist in the simulated chain)"},
		Assumes:    []string{"the v1->v2 migration is not part of this check (its old fields have no documented conservation law)", "the hard-coded split amounts (15M, 8M, 9M, 40M tokens, 6 decimals) are taken from the property's description of the upgrade, the hard-coded addresses from the repository's constants"},
		FaultKinds: []string{"F-upgrade", "F-crash in the preparing and in the upgrading block", "failing preconditions at each stage"},
	})
}

type c16Extra struct {
	Variant    string `json:"variant"`
	C11Upgrade bool   `json:"c11_upgrade,omitempty"` // the trace belongs to C11's upgrade sub-profile
	C17Upgrade bool   `json:"c17_upgrade,omitempty"` // ... to C17's upgrade sub-profile
	C05Upgrade bool   `json:"c05_upgrade,omitempty"` // ... to C05's upgrade sub-profile
	ForProp    string `json:"for_prop,omitempty"`    // ... to the upgrade sub-profile of this property (C02, C10, C13)
	// ZeroExpAmount: the legacy minter parameters carry their exponential periods with amount 0 (valid in the previous format)
	ZeroExpAmount bool `json:"zero_exp_amount,omitempty"`
	// UpperOwnerKey: the old store keeps one owner's pools under the upper-case spelling of the address
	UpperOwnerKey bool `json:"upper_owner_key,omitempty"`
}

const uc4ePerToken = 1_000_000

var c16SplitTotal = sdk.NewInt(72_000_000).MulRaw(uc4ePerToken)
var c16NewPools = map[string]sdk.Int{
	"VC round pool":                           sdk.NewInt(15_000_000).MulRaw(uc4ePerToken),
	"Early-bird round pool":                   sdk.NewInt(8_000_000).MulRaw(uc4ePerToken),
	"Public round pool":                       sdk.NewInt(9_000_000).MulRaw(uc4ePerToken),
	"Strategic reserve short term round pool": sdk.NewInt(40_000_000).MulRaw(uc4ePerToken),
}

func c16RunSeed(seed uint64, tier string) *Outcome { return c16Replay(c16Trace(seed)) }

// c16Trace generates the pre-upgrade world and the blocks around the upgrade (also used by C11's upgrade sub-profile).
func c16Trace(seed uint64) *kernel.Trace {
	r := kernel.NewRng(seed)
	spec := baseSpec(r.Fork(1), r.Range(3, 5), nil, 16)
	spec.NoICA = true
	spec.GenesisTime = spec.GenesisTime.Truncate(time.Second)
	vdenom := BondDenom
	vg := vtypes.GenesisState{Params: vtypes.Params{Denom: BondDenom}, VestingAccountTraces: []vtypes.VestingAccountTrace{}}
	variant := []string{"all-present", "all-present", "no-owner", "no-validators-pool", "not-enough-locked", "exactly-enough", "no-validators-type", "all-present-with-history", "withdrawn-below-threshold"}[r.Intn(9)]
	// vesting types
	for i := 0; i < r.Range(1, 3); i++ {
		lp, lu := genPeriodUnits(r)
		vp, vu := genPeriodUnits(r)
		vg.VestingTypes = append(vg.VestingTypes, vtypes.GenesisVestingType{Name: fmt.Sprintf("vt%d", i+1), LockupPeriod: lp, LockupPeriodUnit: lu, VestingPeriod: vp, VestingPeriodUnit: vu, Free: genFree(r)})
	}
	if variant != "no-validators-type" {
		vg.VestingTypes = append(vg.VestingTypes, vtypes.GenesisVestingType{Name: "Validators", LockupPeriod: 274, LockupPeriodUnit: "day", VestingPeriod: 548, VestingPeriodUnit: "day", Free: sdk.NewDecWithPrec(5, 2)})
	}
	typeNames := func() string { return vg.VestingTypes[r.Intn(len(vg.VestingTypes))].Name }
	total := sdk.ZeroInt()
	mkPool := func(name string, init sdk.Int, vt string) *vtypes.VestingPool {
		sent, wd := sdk.ZeroInt(), sdk.ZeroInt()
		if r.P(0.5) {
			sent = sdk.NewIntFromBigInt(r.BigBelow(init.QuoRaw(3).AddRaw(1).BigInt()))
		}
		if r.P(0.3) {
			wd = sdk.NewIntFromBigInt(r.BigBelow(init.QuoRaw(3).AddRaw(1).BigInt()))
		}
		start := spec.GenesisTime.Add(-time.Duration(r.Range(1, 500)) * 24 * time.Hour)
		p := &vtypes.VestingPool{Name: name, VestingType: vt, LockStart: start, LockEnd: start.Add(time.Duration(r.Range(100, 1500)) * 24 * time.Hour), InitiallyLocked: init, Sent: sent, Withdrawn: wd}
		total = total.Add(p.GetCurrentlyLocked())
		return p
	}
	// other owners
	for i := 0; i < r.Range(0, 3); i++ {
		avp := &vtypes.AccountVestingPools{Owner: kernel.ActorBech(spec.Clients[i%len(spec.Clients)])}
		dup := false
		for _, x := range vg.AccountVestingPools {
			if x.Owner == avp.Owner {
				dup = true
			}
		}
		if dup {
			continue
		}
		for k := 0; k < r.Range(1, 3); k++ {
			name := fmt.Sprintf("pool-%d-%d", i, k)
			if k == 0 && r.Intn(6) == 0 {
				name = "Validators pool" // same name under another owner: must be left alone
			}
			avp.VestingPools = append(avp.VestingPools, mkPool(name, sdk.NewIntFromBigInt(r.BigLogUniform(16)), typeNames()))
		}
		vg.AccountVestingPools = append(vg.AccountVestingPools, avp)
	}
	if variant != "no-owner" {
		avp := &vtypes.AccountVestingPools{Owner: v120.ValidatorsVestingPoolOwner}
		if variant != "no-validators-pool" {
			// sized around the 72M split total
			var init sdk.Int
			switch variant {
			case "not-enough-locked":
				init = c16SplitTotal.SubRaw(int64(r.Range(1, 1000)))
			case "exactly-enough":
				init = c16SplitTotal
			default:
				init = c16SplitTotal.Add(sdk.NewIntFromBigInt(r.BigLogUniform(15)))
			}
			p := mkPool("Validators pool", init, typeOr(vg, "Validators"))
			// keep the locked remainder on the intended side of the threshold
			locked := p.GetCurrentlyLocked()
			switch variant {
			case "withdrawn-below-threshold":
				// more than 72M were locked initially and never sent, but the owner has withdrawn so much (the lock ended)
				// that less than 72M are left: the split must not run
				total = total.Sub(locked)
				p.InitiallyLocked = c16SplitTotal.Add(sdk.NewIntFromBigInt(r.BigLogUniform(14)))
				p.Sent = sdk.NewIntFromBigInt(r.BigBelow(big.NewInt(1_000_000_000)))
				rest := p.InitiallyLocked.Sub(p.Sent)
				leave := sdk.NewIntFromBigInt(r.BigBelow(c16SplitTotal.BigInt())) // < 72M stay locked
				if leave.GT(rest) {
					leave = rest
				}
				p.Withdrawn = rest.Sub(leave)
				total = total.Add(p.GetCurrentlyLocked())
			case "not-enough-locked":
				// fine: locked <= init < total
			case "exactly-enough":
				total = total.Sub(locked)
				p.Sent, p.Withdrawn = sdk.ZeroInt(), sdk.ZeroInt()
				total = total.Add(p.GetCurrentlyLocked())
			default:
				if locked.LT(c16SplitTotal) {
					total = total.Sub(locked)
					p.InitiallyLocked = p.InitiallyLocked.Add(c16SplitTotal)
					total = total.Add(p.GetCurrentlyLocked())
				}
			}
			avp.VestingPools = append(avp.VestingPools, p)
		}
		if r.P(0.7) {
			avp.VestingPools = append(avp.VestingPools, mkPool("Advisors pool", sdk.NewIntFromBigInt(r.BigLogUniform(15)), typeNames()))
		}
		if r.P(0.4) {
			avp.VestingPools = append(avp.VestingPools, mkPool("Other pool", sdk.NewIntFromBigInt(r.BigLogUniform(15)), typeNames()))
		}
		if r.P(0.3) {
			// the owner already created a pool that carries the name of one of the pools the upgrade adds
			// (MsgCreateVestingPool accepts any unused name): its value and history must survive as well
			names := []string{"VC round pool", "Early-bird round pool", "Public round pool", "Strategic reserve short term round pool"}
			avp.VestingPools = append(avp.VestingPools, mkPool(names[r.Intn(len(names))], sdk.NewIntFromBigInt(r.BigLogUniform(15)), typeNames()))
		}
		if len(avp.VestingPools) > 0 {
			vg.AccountVestingPools = append(vg.AccountVestingPools, avp)
		}
	}
	if r.Intn(4) == 0 {
		// the pools are counted in a denomination of their own (the legacy parameter, not the staking denomination)
		vdenom = "uvest"
		vg.Params.Denom = vdenom
	}
	if total.IsPositive() {
		spec.Balances = append(spec.Balances, kernel.BalSpec{Module: vtypes.ModuleName, Coins: sdk.NewCoin(vdenom, total).String()})
	}
	// the four accounts whose schedule is shifted (present, absent, or a plain base account), plus bystanders
	hard := []string{v120.Account1, v120.Account2, v120.Account3, v120.Account4}
	for _, a := range hard {
		switch r.Intn(4) {
		case 0:
			// absent
		case 1:
			spec.Balances = append(spec.Balances, kernel.BalSpec{Addr: a, Coins: "12345" + BondDenom}) // plain balance, account created lazily
		default:
			ov := sdk.NewCoin(BondDenom, sdk.NewIntFromBigInt(r.BigLogUniform(15)))
			start := spec.GenesisTime.Unix() + int64(r.Range(-400, 400))*86400
			va := kernel.VAccSpec{Addr: a, OriginalVesting: ov.String(), Start: start, End: start + int64(r.Range(1, 800))*86400}
			bal := ov
			if r.P(0.6) {
				// the account staked before the upgrade: part of its vesting (and maybe free) coins is delegated
				dv := sdk.NewCoin(BondDenom, ov.Amount.QuoRaw(int64(r.Range(2, 9))))
				if dv.IsPositive() {
					va.DelegatedVesting = dv.String()
					bal = ov.Sub(dv)
				}
				if r.Bool() {
					va.DelegatedFree = sdk.NewCoin(BondDenom, sdk.NewInt(int64(r.Range(1, 100000)))).String()
				}
			}
			spec.VestingAccounts = append(spec.VestingAccounts, va)
			if bal.IsPositive() {
				spec.Balances = append(spec.Balances, kernel.BalSpec{Addr: a, Coins: bal.String()})
			}
		}
	}
	for i := 0; i < r.Range(0, 2); i++ {
		name := fmt.Sprintf("gvacc-%d", i)
		ov := sdk.NewCoin(BondDenom, sdk.NewIntFromBigInt(r.BigLogUniform(15)))
		start := spec.GenesisTime.Unix() + int64(r.Range(-100, 100))*86400
		spec.VestingAccounts = append(spec.VestingAccounts, kernel.VAccSpec{Actor: name, OriginalVesting: ov.String(), Start: start, End: start + int64(r.Range(1, 800))*86400})
		spec.Balances = append(spec.Balances, kernel.BalSpec{Actor: name, Coins: ov.String()})
	}
	// traces: some hard-coded addresses from the upgrade's lists, some ordinary ones
	traceAddrs := []string{"c4e1z5h0squtynr8rhwl0mzqdcd0wgmfyvpqmx3y2r", "c4e13e303u43k7mng4927axuhve0plgsyxc4xky63k", v120.Account1, kernel.ActorBech("gvacc-0"), kernel.ActorBech(spec.Clients[0])}
	for _, a := range traceAddrs {
		if r.P(0.6) {
			vg.VestingAccountTraces = append(vg.VestingAccountTraces, vtypes.VestingAccountTrace{Id: vg.VestingAccountTraceCount, Address: a})
			vg.VestingAccountTraceCount++
		}
	}
	spec.Vesting = kernel.Enc().Marshaler.MustMarshalJSON(&vg)
	distCfg := DistGenCfg{MaxSubs: 3, MultiSource: true, ShareToMain: true, AllowBurn: true}
	for i := 1; i < len(spec.Clients); i++ {
		distCfg.BaseAddrs = append(distCfg.BaseAddrs, kernel.ActorBech(spec.Clients[i]))
	}
	// a third of the worlds spell some BASE_ACCOUNT ids in upper case (the previous binary kept their states under that spelling)
	distCfg.Respell = kernel.Mix(uint64(spec.GenesisTime.UnixNano()), 9)%3 == 0
	if dp, err := GenDistParams(r.Fork(2), distCfg); err == nil {
		spec.Distributor = DistGenesisJSON(dp)
	}
	if mp, err := GenMinterParams(r.Fork(3), spec.GenesisTime, BondDenom, MinterGenCfg{MaxPeriods: 4, MaxAmountExp: 20, MaxStepsHint: 100, Horizon: 24 * time.Hour, AllowNone: true}); err == nil {
		spec.Minter = MinterGenesisJSON(mp, spec.GenesisTime)
	}
	tr := &kernel.Trace{Profile: "C16", Seed: seed, Spec: *spec, Extra: mustJSON(c16Extra{Variant: variant, ZeroExpAmount: r.Intn(6) == 0, UpperOwnerKey: r.Intn(6) == 1})}
	for i := 0; i < 5; i++ {
		b := kernel.Block{DtNs: int64(6 * time.Second)}
		if i >= 2 {
			// after the upgrade the pools are used: sends and withdrawals by every owner that is a client
			for _, avp := range vg.AccountVestingPools {
				for ci, cl := range spec.Clients {
					if kernel.ActorBech(cl) != avp.Owner {
						continue
					}
					for pi, p := range avp.VestingPools {
						if r.P(0.6) {
							if t := msgTx(cl, &vtypes.MsgSendToVestingAccount{Owner: avp.Owner, ToAddress: kernel.ActorBech(fmt.Sprintf("fresh-%d-%d-%d", i, ci, pi)), VestingPoolName: p.Name, Amount: sdk.NewInt(int64(r.Range(0, 3))), RestartVesting: r.Bool()}, ""); t != nil {
								b.Txs = append(b.Txs, *t)
							}
						}
					}
					if r.P(0.5) {
						if t := msgTx(cl, &vtypes.MsgWithdrawAllAvailable{Owner: avp.Owner}, ""); t != nil {
							b.Txs = append(b.Txs, *t)
						}
					}
				}
			}
		}
		if (i <= 1 && r.P(0.25)) || (i == 2 && r.P(0.3)) {
			// i == 2: the node is restarted some time after the upgrade (what the upgrade handler left in process memory is gone)
			if r.Bool() {
				b.Crash = -1
			} else {
				b.Crash = r.Range(1, 30)
			}
		}
		if i >= 3 && r.P(0.35) {
			// somebody submits an old-style parameter change for a subspace of a custom module (x/gov runs the content once at submission)
			sub := []string{vtypes.ModuleName, mintertypes.ModuleName, disttypes.ModuleName}[r.Intn(3)]
			key, val := "Denom", "\"uc4e\""
			switch sub {
			case mintertypes.ModuleName:
				key, val = "MintDenom", "\"uc4e\""
			case disttypes.ModuleName:
				key, val = "SubDistributors", "[]"
			}
			content := paramproposal.NewParameterChangeProposal("verif", "legacy parameter change", []paramproposal.ParamChange{paramproposal.NewParamChange(sub, key, val)})
			if m, err := govv1beta1.NewMsgSubmitProposal(content, sdk.NewCoins(sdk.NewCoin(BondDenom, sdk.NewInt(1))), kernel.ActorAddr(spec.Clients[0])); err == nil {
				if t := msgTx(spec.Clients[0], m, ""); t != nil {
					t.Note = "legacy-param-change-proposal"
					b.Txs = append(b.Txs, *t)
				}
			}
		}
		tr.Blocks = append(tr.Blocks, b)
	}
	return tr
}

func typeOr(vg vtypes.GenesisState, want string) string {
	for _, t := range vg.VestingTypes {
		if t.Name == want {
			return want
		}
	}
	return vg.VestingTypes[0].Name
}

// toLegacyLayout rewrites the custom modules' stores into the v1.1.0 layout inside the current block.
func toLegacyLayout(c *kernel.Chain, zeroExpAmount bool, upperOwnerKey bool) (legacyMinter mintertypes.LegacyParams, legacyDist disttypes.Params, err error) {
	ctx := c.Ctx()
	cdc := kernel.Enc().Marshaler
	amino := c.App.LegacyAmino()
	vstore := ctx.KVStore(c.App.GetKey(vtypes.StoreKey))
	// pools: new records -> v2 records (same prefix, keyed by address)
	pools := c.App.CfevestingKeeper.GetAllAccountVestingPools(ctx)
	ps := prefix.NewStore(vstore, vv2.AccountVestingPoolsKeyPrefix)
	for i, avp := range pools {
		old := vv2.AccountVestingPools{Address: avp.Owner}
		if upperOwnerKey && i == 0 && avp.Owner != v120.ValidatorsVestingPoolOwner {
			// the old store knows this owner under the upper-case spelling of the address (a genesis file of that time)
			ps.Delete([]byte(avp.Owner))
			old.Address = strings.ToUpper(avp.Owner)
			avp.Owner = old.Address
		}
		for _, p := range avp.VestingPools {
			old.VestingPools = append(old.VestingPools, &vv2.VestingPool{Name: p.Name, VestingType: p.VestingType, LockStart: p.LockStart, LockEnd: p.LockEnd, InitiallyLocked: p.InitiallyLocked, Withdrawn: p.Withdrawn, Sent: p.Sent})
		}
		ps.Set([]byte(avp.Owner), cdc.MustMarshal(&old))
	}
	// traces: new map records -> v2 records keyed by id, old counter key
	traces := c.App.CfevestingKeeper.GetAllVestingAccountTrace(ctx)
	count := c.App.CfevestingKeeper.GetVestingAccountTraceCount(ctx)
	newT := prefix.NewStore(vstore, vtypes.KeyPrefix(vtypes.VestingAccountTraceKey))
	oldT := prefix.NewStore(vstore, vtypes.KeyPrefix(vv2.VestingAccountKey))
	for _, t := range traces {
		newT.Delete([]byte(t.Address))
		id := make([]byte, 8)
		binary.BigEndian.PutUint64(id, t.Id)
		oldT.Set(id, cdc.MustMarshal(&vv2.VestingAccount{Id: t.Id, Address: t.Address}))
	}
	vstore.Delete(vtypes.KeyPrefix(vtypes.VestingAccountTraceCountKey))
	cb := make([]byte, 8)
	binary.BigEndian.PutUint64(cb, count)
	vstore.Set(vtypes.KeyPrefix(vv2.VestingAccountCountKey), cb)
	// parameters: module stores -> legacy amino JSON in the x/params subspaces
	pstore := ctx.KVStore(c.App.GetKey(paramstypes.StoreKey))
	setLegacy := func(subspace string, key []byte, v interface{}) error {
		bz, e := amino.MarshalJSON(v)
		if e != nil {
			return e
		}
		pstore.Set(append([]byte(subspace+"/"), key...), bz)
		return nil
	}
	vp := c.App.CfevestingKeeper.GetParams(ctx)
	if err = setLegacy(vtypes.ModuleName, vtypes.KeyDenom, vp.Denom); err != nil {
		return
	}
	vstore.Delete(vtypes.ParamsKey)
	mp := c.App.CfeminterKeeper.GetParams(ctx)
	legacyMinter = mintertypes.LegacyParams{MintDenom: mp.MintDenom, MinterConfig: mintertypes.MinterConfig{StartTime: mp.StartTime}}
	for _, m := range mp.Minters {
		lm := &mintertypes.LegacyMinter{SequenceId: m.SequenceId, EndTime: m.EndTime}
		switch cfg := m.Config.GetCachedValue().(type) {
		case *mintertypes.LinearMinting:
			lm.Type, lm.LinearMinting = mintertypes.LinearMintingType, cfg
		case *mintertypes.ExponentialStepMinting:
			if zeroExpAmount {
				// the previous format allowed an exponential period that emits nothing (amount 0)
				cfg = &mintertypes.ExponentialStepMinting{Amount: sdk.ZeroInt(), AmountMultiplier: cfg.AmountMultiplier, StepDuration: cfg.StepDuration}
			}
			lm.Type, lm.ExponentialStepMinting = mintertypes.ExponentialStepMintingType, cfg
		default:
			lm.Type = mintertypes.NoMintingType
		}
		legacyMinter.MinterConfig.Minters = append(legacyMinter.MinterConfig.Minters, lm)
	}
	if err = setLegacy(mintertypes.ModuleName, mintertypes.KeyMintDenom, legacyMinter.MintDenom); err != nil {
		return
	}
	if err = setLegacy(mintertypes.ModuleName, mintertypes.KeyMinterConfig, legacyMinter.MinterConfig); err != nil {
		return
	}
	ctx.KVStore(c.App.GetKey(mintertypes.StoreKey)).Delete(mintertypes.ParamsKey)
	legacyDist = c.App.CfedistributorKeeper.GetParams(ctx)
	if err = setLegacy(disttypes.ModuleName, disttypes.KeySubDistributors, legacyDist.SubDistributors); err != nil {
		return
	}
	ctx.KVStore(c.App.GetKey(disttypes.StoreKey)).Delete(disttypes.ParamsKey)
	// the previous binary kept the state of an account under "<type>-<id as written>"
	dstore := prefix.NewStore(ctx.KVStore(c.App.GetKey(disttypes.StoreKey)), disttypes.StateKeyPrefix)
	spellings := map[string][]string{} // canonical address -> the spellings the configuration uses
	noteSpelling := func(a disttypes.Account) {
		if a.Type != disttypes.BaseAccount {
			return
		}
		k := canonBaseID(a.Id)
		for _, x := range spellings[k] {
			if x == a.Id {
				return
			}
		}
		spellings[k] = append(spellings[k], a.Id)
	}
	for _, sd := range legacyDist.SubDistributors {
		for _, src := range sd.Sources {
			noteSpelling(*src)
		}
		noteSpelling(sd.Destinations.PrimaryShare)
		for _, sh := range sd.Destinations.Shares {
			noteSpelling(sh.Destination)
		}
	}
	for _, st := range c.App.CfedistributorKeeper.GetAllStates(ctx) {
		if st.Account != nil && st.Account.Id != "" && st.Account.Type != "" {
			st := st
			dstore.Delete([]byte(st.GetStateKey()))
			ids := []string{st.Account.Id}
			if st.Account.Type == disttypes.BaseAccount && len(spellings[canonBaseID(st.Account.Id)]) > 1 {
				// the previous binary kept one state per spelling: what is booked for the account is spread over them
				ids = spellings[canonBaseID(st.Account.Id)]
			}
			rest := st.Remains
			for i, id := range ids {
				part := rest
				if i < len(ids)-1 {
					part = sdk.NewDecCoins()
					for _, dc := range rest {
						part = part.Add(sdk.NewDecCoinFromDec(dc.Denom, dc.Amount.QuoInt64(2)))
					}
					rest = rest.Sub(part)
				}
				one := disttypes.State{Account: &disttypes.Account{Id: id, Type: st.Account.Type}, Burn: st.Burn, Remains: part}
				dstore.Set([]byte(st.Account.Type+"-"+id), kernel.Enc().Marshaler.MustMarshal(&one))
			}
		}
	}
	// module versions of the previous binary
	vm := c.App.UpgradeKeeper.GetModuleVersionMap(ctx)
	vm[vtypes.ModuleName], vm[mintertypes.ModuleName], vm[disttypes.ModuleName] = 2, 2, 2
	delete(vm, "interchainaccounts")
	c.App.UpgradeKeeper.SetModuleVersionMap(ctx, vm)
	prefix.NewStore(ctx.KVStore(c.App.GetKey(upgradetypes.StoreKey)), []byte{upgradetypes.VersionMapByte}).Delete([]byte("interchainaccounts"))
	return
}

// c16DistMigrationBooks runs the real cfedistributor 2->3 migration on a branch of the pre-upgrade store (discarded
// afterwards) and compares what is booked per account before and after it: the migration may move states, it may not
// change what anybody is owed (C03: nothing lost, nothing counted twice).
func c16DistMigrationBooks(r *kernel.Run, o *Outcome) {
	if pi := kernel.Catch("distributor store migration on a branch", func() {
		cctx, _ := r.Chain.Ctx().CacheContext()
		k := r.Chain.App.CfedistributorKeeper
		group := func(states []disttypes.State) (map[string]sdk.DecCoins, map[string]int) {
			sums, n := map[string]sdk.DecCoins{}, map[string]int{}
			for _, st := range states {
				key := stateKey(st)
				sums[key] = sums[key].Add(st.Remains...)
				n[key]++
			}
			return sums, n
		}
		pre, _ := group(k.GetAllStates(cctx))
		if err := distkeeper.NewMigrator(k, r.Chain.App.GetSubspace(disttypes.ModuleName)).Migrate2to3(cctx); err != nil {
			return // a refused migration halts the upgrade block: decided there
		}
		post, n := group(k.GetAllStates(cctx))
		o.Evals++
		for _, key := range kernel.SortedKeys(boolKeys(pre, post)) {
			if !pre[key].IsEqual(post[key]) {
				o.Violations = append(o.Violations, &kernel.Violation{Property: "C03", Check: "migration-keeps-books", Signature: "store-migration-changes-what-is-booked", Block: 0, TxIndex: -1,
					Message: fmt.Sprintf("the cfedistributor 2->3 store migration turns the %s booked for %s into %s", pre[key], key, post[key])})
				return
			}
			if n[key] > 1 {
				o.Violations = append(o.Violations, &kernel.Violation{Property: "C03", Check: "migration-keeps-books", Signature: "store-migration-leaves-two-states-for-one-account", Block: 0, TxIndex: -1,
					Message: fmt.Sprintf("after the cfedistributor 2->3 store migration %s has %d states", key, n[key])})
				return
			}
		}
		if len(pre) != len(k.GetAllStates(r.Chain.Ctx())) {
			o.Stats.Inc("probe.pre_upgrade_store_with_one_account_in_two_states")
		}
	}); pi != nil {
		_ = pi
	}
}

func boolKeys(ms ...map[string]sdk.DecCoins) map[string]bool {
	out := map[string]bool{}
	for _, m := range ms {
		for k := range m {
			out[k] = true
		}
	}
	return out
}

type c16Snap struct {
	denom  string
	pools  map[string]map[string]poolRec
	module sdk.Int
	accs   map[string][]byte
	bal    kernel.Balances
	traces []vtypes.VestingAccountTrace
	traceN uint64
	vtypes map[string]bool
}

func c16Replay(tr *kernel.Trace) *Outcome {
	o := &Outcome{Trace: tr}
	var extra c16Extra
	_ = jsonUnmarshal(tr.Extra, &extra)
	violate := func(check, sig, format string, args ...interface{}) {
		o.Violations = append(o.Violations, &kernel.Violation{Property: "C16", Check: check, Signature: sig, Message: fmt.Sprintf(format, args...), Block: 1, TxIndex: -1})
	}
	spec := tr.Spec
	run := &kernel.Run{Spec: &spec}
	if pi := run.Start(); pi != nil || run.InfraErr != nil {
		if run.InfraErr != nil {
			o.InfraErr = run.InfraErr
		} else {
			o.InfraErr = errGenesis(pi)
		}
		return o
	}
	if len(tr.Blocks) < 3 {
		o.InfraErr = fmt.Errorf("C16 trace needs at least 3 blocks")
		return o
	}
	var legacyMinter mintertypes.LegacyParams
	var legacyDist disttypes.Params
	var s0 *c16Snap
	var prepErr error
	// block 0: rewrite into the old layout and schedule the plan for the next height
	run.Hook = func(r *kernel.Run, stage string) {
		if stage != "after-begin" {
			return
		}
		switch r.BlockIdx {
		case 0:
			s := takeVSnap(r.Chain, false)
			s0 = &c16Snap{denom: s.denom, pools: s.pools, module: s.module, accs: s.accs, bal: s.bal, traceN: s.traceN, vtypes: map[string]bool{}}
			s0.traces = r.Chain.App.CfevestingKeeper.GetAllVestingAccountTrace(r.Chain.Ctx())
			for _, vt := range r.Chain.App.CfevestingKeeper.GetAllVestingTypes(r.Chain.Ctx()).VestingTypes {
				s0.vtypes[vt.Name] = true
			}
			legacyMinter, legacyDist, prepErr = toLegacyLayout(r.Chain, extra.ZeroExpAmount, extra.UpperOwnerKey)
			if prepErr == nil {
				c16DistMigrationBooks(r, o)
			}
			if prepErr == nil {
				prepErr = r.Chain.App.UpgradeKeeper.ScheduleUpgrade(r.Chain.Ctx(), upgradetypes.Plan{Name: v120.UpgradeName, Height: r.Chain.Header.Height + 1})
			}
		}
	}
	b0 := tr.Blocks[0]
	run.ExecBlock(&b0, nil)
	run.BlockIdx++
	if prepErr != nil {
		o.InfraErr = fmt.Errorf("cannot prepare the pre-upgrade layout: %v", prepErr)
		return o
	}
	if run.Chain.Halted != nil {
		// the block before the upgrade is an ordinary block of the (rewritten) chain: a halt there is a halt (C10's
		// subject), never trouble of the harness
		pi := run.Chain.Halted
		o.Violations = append(o.Violations, &kernel.Violation{Property: "C10", Check: "upgrade-runs", Signature: "block-before-upgrade-halted:" + pi.Site(), Block: 0, TxIndex: -1,
			Message: fmt.Sprintf("the block before the upgrade halted the chain: %s", firstLineOf(pi.Value))})
		o.Stats.Merge(&run.Stats)
		return o
	}
	// block 1: the upgrade executes in BeginBlock; checks run on the deliver state right after it
	checked := false
	run.Hook = func(r *kernel.Run, stage string) {
		if stage == "after-begin" && r.BlockIdx == 1 && !checked {
			checked = true
			c16Check(r, s0, legacyMinter, legacyDist, extra.Variant, o, violate)
		}
	}
	b1 := tr.Blocks[1]
	run.ExecBlock(&b1, nil)
	run.BlockIdx++
	// C13 across the upgrade: the stored minter parameters still contain the minter's current period (read from the
	// stores, so it is decided also when the block went on to halt)
	if pi := kernel.Catch("minter state after upgrade", func() {
		mp := run.Chain.MinterParams()
		st := run.Chain.App.CfeminterKeeper.GetMinterState(run.Chain.Ctx())
		if len(mp.Minters) > 0 {
			found := false
			for _, m := range mp.Minters {
				if m != nil && m.SequenceId == st.SequenceId {
					found = true
				}
			}
			o.Evals++
			if !found {
				o.Violations = append(o.Violations, &kernel.Violation{Property: "C13", Check: "stored-valid", Signature: "current-period-missing-after-upgrade", Block: 1, TxIndex: -1,
					Message: fmt.Sprintf("after the upgrade the minter's current period %d is not in the stored configuration", st.SequenceId)})
			}
		}
	}); pi != nil {
		_ = pi // an unreadable store shows up as a halt below
	}
	if run.Chain.Halted != nil {
		pi := run.Chain.Halted
		violate("upgrade-runs", "upgrade-block-halted:"+pi.Site(), "the upgrade block halted the chain: %s", firstLineOf(pi.Value))
	} else if !checked {
		o.InfraErr = fmt.Errorf("upgrade block did not reach the check")
	}
	o.Stats.Inc("probe.upgrade_executed_variant_" + extra.Variant)
	// C03 across the upgrade: what the distributor has booked still adds up to what its main account holds
	distBooks := func(blk int) {
		if run.Chain.Halted != nil {
			return
		}
		if pi := kernel.Catch("distributor books after upgrade", func() {
			sum := sdk.NewDecCoins()
			for _, st := range run.Chain.DistStates() {
				sum = sum.Add(st.Remains...)
			}
			bal := sdk.NewDecCoinsFromCoins(run.Chain.App.BankKeeper.GetAllBalances(run.Chain.Ctx(), kernel.DistMainAddr())...)
			o.Evals++
			if !sum.IsEqual(bal) {
				o.Violations = append(o.Violations, &kernel.Violation{Property: "C03", Check: "books-match-balance", Signature: "states-sum-differs-from-main-balance-after-upgrade", Block: blk, TxIndex: -1,
					Message: fmt.Sprintf("block %d after the upgrade: the distributor's states add up to %s but its main account holds %s", blk-1, sum, bal)})
			}
		}); pi != nil {
			_ = pi
		}
	}
	distBooks(1)
	// the chain keeps producing blocks
	for i := 2; i < len(tr.Blocks) && run.Chain.Halted == nil && len(o.Violations) == 0; i++ {
		b := tr.Blocks[i]
		run.Hook = nil
		run.Monitors = []kernel.Monitor{&panicTxMonitor{}}
		run.ExecBlock(&b, nil)
		run.BlockIdx++
		if run.Chain.Halted != nil {
			pi := run.Chain.Halted
			violate("chain-continues", "post-upgrade-halt:"+pi.Site(), "block %d after the upgrade halted the chain: %s", i-1, firstLineOf(pi.Value))
		}
		distBooks(i)
	}
	if run.Chain.Halted == nil && len(o.Violations) == 0 {
		// after the crash/restart paths too: solvency still holds on the committed state
		s := takeVSnap(run.Chain, false)
		o.Evals++
		if !s.module.Equal(s.lockedSum()) {
			violate("solvency", "module-balance-vs-pools-after-upgrade", "after the upgrade and %d further blocks the vesting module account holds %s but pools lock %s", len(tr.Blocks)-2, s.module, s.lockedSum())
		}
	}
	o.Stats.Merge(&run.Stats)
	if run.InfraErr != nil {
		o.InfraErr = run.InfraErr
	}
	for _, h := range run.AppHashes {
		o.Hashes = append(o.Hashes, fmt.Sprintf("%x", h))
	}
	// the hard-coded owner's pools after the run, by name (for the pool-order twin of C17)
	if run.Chain.Halted == nil {
		o.Aux = map[string]string{}
		if avp, found := run.Chain.App.CfevestingKeeper.GetAccountVestingPools(run.Chain.Ctx(), v120.ValidatorsVestingPoolOwner); found {
			seen := map[string]int{}
			for _, p := range avp.VestingPools {
				seen[p.Name]++
				o.Aux[fmt.Sprintf("%s#%d", p.Name, seen[p.Name])] = fmt.Sprintf("genesis=%v type=%s init=%s sent=%s withdrawn=%s lock_end=%d", p.GenesisPool, p.VestingType, p.InitiallyLocked, p.Sent, p.Withdrawn, p.LockEnd.Unix())
			}
		}
	}
	o.Violations = append(o.Violations, run.Violations...)
	o.Nontrivial = s0 != nil && len(s0.pools) > 0
	crashes := fmt.Sprint(tr.Blocks[0].Crash != 0, tr.Blocks[1].Crash != 0)
	o.Fingerprint = fingerprint(extra.Variant, statsClasses(&o.Stats, "probe.", "fault."), crashes, len(o.Violations) > 0)
	o.Sample = map[string]interface{}{"seed": tr.Seed, "variant": extra.Variant, "owners_with_pools": len(s0.pools), "crash_in_prepare_block": tr.Blocks[0].Crash, "crash_in_upgrade_block": tr.Blocks[1].Crash}
	return o
}

func c16Check(r *kernel.Run, s0 *c16Snap, legacyMinter mintertypes.LegacyParams, legacyDist disttypes.Params, variant string, o *Outcome, violate func(check, sig, format string, args ...interface{})) {
	c := r.Chain
	ctx := c.Ctx()
	s1 := takeVSnap(c, false)
	o.Evals++
	// (b) solvency
	if !s1.module.Equal(s1.lockedSum()) {
		violate("solvency", "module-balance-vs-pools", "after the upgrade the vesting module account holds %s but pools lock %s", s1.module, s1.lockedSum())
	}
	for _, ow := range sortedOwners(s1.pools) {
		for _, name := range sortedPools(s1.pools[ow]) {
			p := s1.pools[ow][name]
			if p.Wd.IsNegative() || p.Sent.IsNegative() || p.Wd.Add(p.Sent).GT(p.Init) {
				violate("solvency", "pool-bounds", "after the upgrade pool %s/%s has initially locked %s, sent %s, withdrawn %s", ow, poolBaseName(name), p.Init, p.Sent, p.Wd)
			}
		}
	}
	// (a) total locked and per-pool histories
	lock0, lock1 := sdk.ZeroInt(), s1.lockedSum()
	for _, m := range s0.pools {
		for _, p := range m {
			lock0 = lock0.Add(p.Init.Sub(p.Sent).Sub(p.Wd))
		}
	}
	o.Evals++
	if !lock0.Equal(lock1) {
		violate("locked-total", "total-locked-changed", "total locked across all pools changed from %s to %s", lock0, lock1)
	}
	owner := v120.ValidatorsVestingPoolOwner
	splitDone := false
	if pools, ok := s1.pools[owner]; ok {
		n := 0
		for name := range c16NewPools {
			if countPools(pools, name) > countPools(s0.pools[owner], name) {
				n++
			}
		}
		if n == len(c16NewPools) {
			splitDone = true
		} else if n != 0 {
			violate("split-all-or-nothing", "split-partially-applied", "%d of the 4 new pools exist after the upgrade", n)
		}
	}
	for _, ow := range sortedOwners(s0.pools) {
		for _, name := range sortedPools(s0.pools[ow]) {
			p := s0.pools[ow][name]
			newName := name
			isValidatorsPool := ow == owner && name == "Validators pool"
			if isValidatorsPool && splitDone {
				newName = "Validator round pool"
			}
			q, ok := s1.pools[ow][newName]
			o.Evals++
			if !ok {
				violate("pools-kept", "pool-vanished", "pool %s/%s does not exist after the upgrade", ow, name)
				continue
			}
			if !q.Sent.Equal(p.Sent) || !q.Wd.Equal(p.Wd) || !q.LockEnd.Equal(p.LockEnd) {
				violate("pools-kept", "pool-history-changed", "pool %s/%s: sent %s->%s, withdrawn %s->%s, lock end %s->%s", ow, name, p.Sent, q.Sent, p.Wd, q.Wd, p.LockEnd, q.LockEnd)
			}
			wantInit := p.Init
			if isValidatorsPool && splitDone {
				wantInit = p.Init.Sub(c16SplitTotal)
			}
			if !q.Init.Equal(wantInit) {
				violate("pools-kept", "initially-locked-changed", "pool %s/%s: initially locked %s -> %s, expected %s", ow, name, p.Init, q.Init, wantInit)
			}
			if !isValidatorsPool && !(ow == owner && name == "Advisors pool") && q.VType != p.VType {
				violate("pools-kept", "pool-type-changed", "pool %s/%s changed its vesting type from %s to %s", ow, name, p.VType, q.VType)
			}
		}
	}
	// (c) split: complete with the documented amounts, or nothing
	vp0, hadVP := s0.pools[owner]["Validators pool"]
	expectSplit := hadVP && vp0.Init.Sub(vp0.Sent).Sub(vp0.Wd).GTE(c16SplitTotal) && s0.vtypes["Validators"]
	o.Evals++
	if splitDone != expectSplit {
		violate("split-all-or-nothing", "split-decision", "split applied=%v, but preconditions (validators pool present=%v with >= 72M locked, 'Validators' type present=%v) say %v", splitDone, hadVP, s0.vtypes["Validators"], expectSplit)
	}
	if splitDone {
		o.Stats.Inc("probe.split_applied")
		for name, amt := range c16NewPools {
			q := s1.pools[owner][lastPoolKey(s1.pools[owner], name)]
			if !q.Init.Equal(amt) || !q.Sent.IsZero() || !q.Wd.IsZero() {
				violate("split-all-or-nothing", "new-pool-amount", "new pool %q holds {init %s sent %s wd %s}, expected %s", name, q.Init, q.Sent, q.Wd, amt)
			}
		}
		// nothing else appeared
		for name := range s1.pools[owner] {
			if _, isNew := c16NewPools[poolBaseName(name)]; isNew || name == "Validator round pool" {
				continue
			}
			if _, ok := s0.pools[owner][name]; !ok {
				violate("split-all-or-nothing", "unexpected-new-pool", "unexpected new pool %q", name)
			}
		}
	} else {
		o.Stats.Inc("probe.split_not_applied")
		for ow, m := range s1.pools {
			for name := range m {
				if _, ok := s0.pools[ow][name]; !ok {
					violate("split-all-or-nothing", "unexpected-new-pool", "pool %s/%s appeared although the split was not applied", ow, name)
				}
			}
		}
	}
	// (d) accounts: the four hard-coded ones move by exactly one year and keep their amounts, all others are untouched
	hard := map[string]bool{v120.Account1: true, v120.Account2: true, v120.Account3: true, v120.Account4: true}
	for addr, bz := range s0.accs {
		after, ok := s1.accs[addr]
		o.Evals++
		if !ok {
			violate("accounts", "account-removed", "account %s vanished in the upgrade", addr)
			continue
		}
		a0, _ := c.App.AccountKeeper.UnmarshalAccount(bz)
		a1, _ := c.App.AccountKeeper.UnmarshalAccount(after)
		v0, isV := a0.(*authvesting.ContinuousVestingAccount)
		if hard[addr] && isV {
			v1, ok := a1.(*authvesting.ContinuousVestingAccount)
			if !ok {
				violate("accounts", "shifted-account-type", "account %s is %T after the upgrade", addr, a1)
				continue
			}
			ws := time.Unix(v0.StartTime, 0).AddDate(1, 0, 0).Unix()
			we := time.Unix(v0.EndTime, 0).AddDate(1, 0, 0).Unix()
			if v1.StartTime != ws || v1.EndTime != we {
				violate("accounts", "shift-not-one-year", "account %s moved from [%d,%d] to [%d,%d], one year later is [%d,%d]", addr, v0.StartTime, v0.EndTime, v1.StartTime, v1.EndTime, ws, we)
			}
			if !coinsEq(v0.OriginalVesting, v1.OriginalVesting) || !coinsEq(v0.DelegatedVesting, v1.DelegatedVesting) || !coinsEq(v0.DelegatedFree, v1.DelegatedFree) ||
				v0.GetAccountNumber() != v1.GetAccountNumber() || v0.GetSequence() != v1.GetSequence() {
				violate("accounts", "shifted-account-amounts", "shifted account %s changed amounts or identity", addr)
			}
			o.Stats.Inc("probe.account_shifted")
			continue
		}
		if !bytes.Equal(bz, after) {
			violate("accounts", "unrelated-account-changed", "account %s changed in the upgrade: %s", addr, describeAccountChange(a0, a1))
		}
	}
	// balances: the upgrade moves no coins
	for addr, dd := range s0.bal.Diff(s1.bal) {
		// the upgrade block's own mint/distribution moves coins among the distributor's accounts; vesting-related balances must not move
		if addr == kernel.ModuleAddr(vtypes.ModuleName).String() || hard[addr] {
			violate("balances", "balance-moved", "balance of %s changed in the upgrade block by %v", addr, dd)
		}
	}
	// (e) parameters
	mp := c.App.CfeminterKeeper.GetParams(ctx)
	dp := c.App.CfedistributorKeeper.GetParams(ctx)
	vpar := c.App.CfevestingKeeper.GetParams(ctx)
	o.Evals += 3
	if err := mp.Validate(); err != nil {
		violate("params", "migrated-minter-params-invalid", "migrated minter parameters fail validation: %v", err)
	}
	if err := dp.Validate(); err != nil {
		violate("params", "migrated-distributor-params-invalid", "migrated distributor parameters fail validation: %v", err)
	}
	if vpar.Denom != s0.denom {
		violate("params", "vesting-denom-changed", "vesting denom was %q before and is %q after the upgrade", s0.denom, vpar.Denom)
	}
	if m1, err := MintModelFrom(mp); err == nil {
		m0 := legacyMintModel(legacyMinter)
		if j0, j1 := mustJSONString(m0), mustJSONString(m1); j0 != j1 || mp.MintDenom != legacyMinter.MintDenom {
			violate("params", "minter-schedule-changed", "the migrated minter schedule differs from the legacy one: %s vs %s", clip(j0, 300), clip(j1, 300))
		}
	} else {
		violate("params", "migrated-minter-params-invalid", "migrated minter parameters cannot be read: %v", err)
	}
	if j0, j1 := mustJSONString(DistModelSubs(legacyDist)), mustJSONString(DistModelSubs(dp)); j0 != j1 {
		violate("params", "distributor-shares-changed", "the migrated sub-distributors differ from the legacy ones")
	}
	// (g) traces keep id and address; no trace is lost
	t1 := c.App.CfevestingKeeper.GetAllVestingAccountTrace(ctx)
	byAddr := map[string]vtypes.VestingAccountTrace{}
	for _, t := range t1 {
		byAddr[t.Address] = t
	}
	o.Evals++
	for _, t := range s0.traces {
		g, ok := byAddr[t.Address]
		if !ok || g.Id != t.Id {
			violate("traces", "trace-lost-or-renumbered", "trace %d/%s is %v after the upgrade", t.Id, t.Address, g)
		}
	}
	// (h) lineage: the handler's own flagging step (genesis / from-genesis-pool marks for the accounts it lists) must
	// have taken effect - running that step once more on the upgraded store may not change any trace. Decided with
	// the repository's own function on a throw-away context, not with a copy of its address lists.
	o.Evals++
	if pi := c.WithCache("v120.UpdateVestingAccountTraces (again)", func(cctx sdk.Context) bool {
		v120.UpdateVestingAccountTraces(cctx, c.App)
		for _, t2 := range c.App.CfevestingKeeper.GetAllVestingAccountTrace(cctx) {
			if t1x, ok := byAddr[t2.Address]; ok && (t1x.Genesis != t2.Genesis || t1x.FromGenesisPool != t2.FromGenesisPool || t1x.FromGenesisAccount != t2.FromGenesisAccount) {
				o.Violations = append(o.Violations, &kernel.Violation{Property: "C17", Check: "lineage-after-upgrade", Signature: "upgrade-left-trace-unflagged", Block: 1, TxIndex: -1,
					Message: fmt.Sprintf("after the upgrade the trace of %s is recorded as {genesis %v, from genesis pool %v, from genesis account %v}; the upgrade's own flagging step, run again, records {%v, %v, %v}: the handler's flagging did not take effect",
						t2.Address, t1x.Genesis, t1x.FromGenesisPool, t1x.FromGenesisAccount, t2.Genesis, t2.FromGenesisPool, t2.FromGenesisAccount)})
				break
			}
		}
		return false
	}); pi != nil {
		violate("traces", "flagging-step-panics:"+pi.Site(), "the upgrade's trace flagging step panics on the upgraded store: %s", firstLineOf(pi.Value))
	}
	if len(t1) != len(s0.traces) || c.App.CfevestingKeeper.GetVestingAccountTraceCount(ctx) != s0.traceN {
		violate("traces", "trace-count-changed", "%d traces (counter %d) before, %d (counter %d) after", len(s0.traces), s0.traceN, len(t1), c.App.CfevestingKeeper.GetVestingAccountTraceCount(ctx))
	}
}

// legacyMintModel: the reference schedule read from the legacy parameter layout (type tag + typed fields).
func legacyMintModel(lp mintertypes.LegacyParams) *models.MintModel {
	m := &models.MintModel{Start: lp.MinterConfig.StartTime}
	ms := append([]*mintertypes.LegacyMinter(nil), lp.MinterConfig.Minters...)
	sort.Slice(ms, func(i, j int) bool { return ms[i].SequenceId < ms[j].SequenceId })
	for _, lm := range ms {
		p := models.MintPeriod{}
		if lm.EndTime != nil {
			e := *lm.EndTime
			p.End = &e
		}
		switch lm.Type {
		case mintertypes.LinearMintingType:
			p.Kind, p.Amount = models.MintLinear, lm.LinearMinting.Amount.BigInt()
		case mintertypes.ExponentialStepMintingType:
			p.Kind, p.Amount, p.StepNs = models.MintExp, lm.ExponentialStepMinting.Amount.BigInt(), int64(lm.ExponentialStepMinting.StepDuration)
			p.Mult = decToRat(lm.ExponentialStepMinting.AmountMultiplier)
			if lm.ExponentialStepMinting.Amount.IsZero() {
				p = models.MintPeriod{Kind: models.MintNone, End: p.End} // emits nothing: the same schedule as a no-minting period
			}
		default:
			p.Kind = models.MintNone
		}
		m.Periods = append(m.Periods, p)
	}
	return m
}

func mustJSONString(v interface{}) string {
	bz, err := json.Marshal(v)
	if err != nil {
		return "ERR:" + err.Error()
	}
	return string(bz)
}

// panicTxMonitor: a message that panics after the upgrade (a state only the upgrade produces) is a C20 violation.
type panicTxMonitor struct{ kernel.NopMonitor }

func (panicTxMonitor) AfterTx(r *kernel.Run, tx *kernel.Tx, msgs []sdk.Msg, res *kernel.TxResult) {
	if res.Panic != nil && len(msgs) == 1 {
		url := sdk.MsgTypeURL(msgs[0])
		r.Violate("C20", "message-panic", "deliver-panic-after-upgrade:"+url[len(url)-20:]+"@"+res.Panic.Site(), "%s panicked on the upgraded state: %s", url, firstLineOf(res.Panic.Value))
	}
}

// pools of one owner are keyed by name; a repeated name gets the suffix "\x00#k" in store order (see takeVSnap)
func poolBaseName(key string) string {
	if i := strings.Index(key, "\x00#"); i >= 0 {
		return key[:i]
	}
	return key
}

func countPools(pools map[string]poolRec, name string) int {
	n := 0
	for k := range pools {
		if poolBaseName(k) == name {
			n++
		}
	}
	return n
}

// lastPoolKey: the key of the pool with that name that comes last in the owner's list (the one appended last).
func lastPoolKey(pools map[string]poolRec, name string) string {
	n := countPools(pools, name)
	if n <= 1 {
		return name
	}
	return fmt.Sprintf("%s\x00#%d", name, n)
}
