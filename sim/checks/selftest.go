package checks

import (
	"crypto/sha256"
	"encoding/hex"
	"flag"
	"fmt"
	"os"
	"os/exec"
	"sort"
	"strconv"
	"strings"
	"sync"

	"verifsim/kernel"
)

// Determinism self-test: every (property, seed) is executed in several fresh processes at different
// GOMAXPROCS; the full event logs (app hashes, tx codes/gas/event digests, violations, stats) must agree.
// A mismatch is an infrastructure failure (exit 2), never a VIOLATION.

func cmdSelftestWorker(args []string) int {
	fs := flag.NewFlagSet("selftest-worker", flag.ContinueOnError)
	prop := fs.String("prop", "", "")
	seed := fs.Uint64("seed", 1, "")
	dump := fs.Bool("dump", false, "")
	if err := fs.Parse(args); err != nil {
		return 2
	}
	p := registry[*prop]
	if p == nil {
		return 2
	}
	kernel.KeepLogs = true
	o := safeRun(func() *Outcome { return p.RunSeed(*seed, "quick") })
	h := sha256.New()
	for _, l := range kernel.GlobalLog {
		h.Write([]byte(l))
		h.Write([]byte{'\n'})
	}
	for _, v := range o.Violations {
		h.Write([]byte(v.String()))
	}
	keys := make([]string, 0)
	for k := range o.Stats.Counters {
		keys = append(keys, k)
	}
	sort.Strings(keys)
	for _, k := range keys {
		fmt.Fprintf(h, "%s=%d;", k, o.Stats.Counters[k])
	}
	fmt.Fprintf(h, "fp=%s nt=%v ev=%d", o.Fingerprint, o.Nontrivial, o.Evals)
	if o.InfraErr != nil {
		fmt.Println("INFRA", o.InfraErr)
		return 2
	}
	if *dump {
		for _, l := range kernel.GlobalLog {
			fmt.Println(l)
		}
	}
	fmt.Printf("DIGEST %s lines=%d\n", hex.EncodeToString(h.Sum(nil)), len(kernel.GlobalLog))
	return 0
}

func cmdSelftest(args []string) int {
	fs := flag.NewFlagSet("selftest", flag.ContinueOnError)
	props := fs.String("props", "", "comma separated (default all)")
	seeds := fs.Int("seeds", 4, "seeds per property")
	if err := fs.Parse(args); err != nil {
		return 2
	}
	var ids []string
	if *props == "" {
		for id := range registry {
			ids = append(ids, id)
		}
	} else {
		ids = strings.Split(*props, ",")
	}
	sort.Strings(ids)
	self, _ := os.Executable()
	type job struct {
		prop string
		seed uint64
	}
	var jobs []job
	for _, id := range ids {
		for s := 0; s < *seeds; s++ {
			jobs = append(jobs, job{id, RunSeedFor(batchSeed()+7777, id, s)})
		}
	}
	procs := []string{"1", "4", "16"}
	var mu sync.Mutex
	bad := 0
	sem := make(chan struct{}, 16)
	var wg sync.WaitGroup
	for _, j := range jobs {
		wg.Add(1)
		sem <- struct{}{}
		go func(j job) {
			defer wg.Done()
			defer func() { <-sem }()
			var digests []string
			for _, gp := range procs {
				cmd := exec.Command(self, "selftest-worker", "-prop", j.prop, "-seed", strconv.FormatUint(j.seed, 10))
				cmd.Env = append(os.Environ(), "GOMAXPROCS="+gp)
				out, err := cmd.CombinedOutput()
				d := ""
				for _, l := range strings.Split(string(out), "\n") {
					if strings.HasPrefix(l, "DIGEST ") {
						d = l
					}
				}
				if err != nil || d == "" {
					d = "ERROR: " + strings.TrimSpace(string(out))
				}
				digests = append(digests, d)
			}
			ok := true
			for _, d := range digests[1:] {
				if d != digests[0] || strings.HasPrefix(d, "ERROR") {
					ok = false
				}
			}
			if strings.HasPrefix(digests[0], "ERROR") {
				ok = false
			}
			mu.Lock()
			if !ok {
				bad++
				fmt.Printf("SELFTEST-MISMATCH prop=%s seed=%d: %v\n", j.prop, j.seed, digests)
			}
			mu.Unlock()
		}(j)
	}
	wg.Wait()
	fmt.Printf("selftest: %d (property,seed) pairs x %d processes, mismatches=%d\n", len(jobs), len(procs), bad)
	if bad > 0 {
		return 2
	}
	return 0
}
