package checks

import (
	"fmt"
	"time"

	disttypes "github.com/chain4energy/c4e-chain/x/cfedistributor/types"
	sigtypes "github.com/chain4energy/c4e-chain/x/cfesignature/types"
	sdk "github.com/cosmos/cosmos-sdk/types"

	"verifsim/kernel"
	"verifsim/models"
)

// The "everything" profile: generated minter and distributor configurations, vesting world, all custom message
// kinds in valid and rejected forms through every route, fees, delegations, governance updates, and (by option)
// injected / natural bank faults, node crashes, export-and-restart. Used by C01, C10, C11, C12.

type everythingOpts struct {
	MaxAmtExp   int
	Gov         bool
	BankInj     bool
	NatFaults   bool
	Export      bool
	Crash       bool
	Sim         bool // F-simulate overlay
	Sig         bool
	Adversarial bool
	Blocks      [2]int
	MaxTxs      int
}

type everythingWorld struct {
	spec    *kernel.WorldSpec
	vw      *vestingWorld
	gw      *govWorld
	model   *models.MintModel
	dests   []string
	opts    everythingOpts
	bounds  []time.Time
	horizon time.Duration
}

func buildEverything(seed uint64, prop string, o everythingOpts) (*kernel.Trace, *genSource, *everythingWorld, error) {
	r := kernel.NewRng(seed)
	spec, vw := buildVestingWorld(r.Fork(1), vestingWorldOpts{MaxAmtExp: minInt(o.MaxAmtExp, 30), GenesisPools: true, GenesisVAccs: true, MultiDenomAcc: true})
	spec.VotingPeriodSec = 30
	spec.Balances = append(spec.Balances, kernel.BalSpec{Actor: spec.Clients[0], Coins: "100000" + BondDenom})
	ew := &everythingWorld{spec: spec, vw: vw, opts: o}
	distCfg := DistGenCfg{MaxSubs: r.Range(1, 5), MultiSource: r.P(0.7), ShareToMain: r.P(0.6), IDCollisions: r.P(0.4), AllowBurn: r.P(0.8), SelfAsModule: r.P(0.15)}
	for i := 2; i < len(spec.Clients); i++ {
		distCfg.BaseAddrs = append(distCfg.BaseAddrs, kernel.ActorBech(spec.Clients[i]))
	}
	distCfg.BaseAddrs = append(distCfg.BaseAddrs, kernel.ActorBech("sink-0"), kernel.ActorBech("sink-1"))
	// an eighth of the worlds spell some BASE_ACCOUNT ids in upper case (derived from what is already drawn: the streams of the other worlds stay)
	distCfg.Respell = kernel.Mix(uint64(spec.GenesisTime.UnixNano()), 9)%8 == 0
	if o.NatFaults {
		if r.P(0.6) {
			distCfg.BlockedBaseAddrs = []string{kernel.ModuleAddr("transfer").String(), kernel.ModuleAddr("interchainaccounts").String(),
				// module accounts that exist in the account store from genesis on
				kernel.ModuleAddr("bonded_tokens_pool").String(), kernel.ModuleAddr("distribution").String()}
		}
		for _, va := range spec.VestingAccounts {
			if r.P(0.6) {
				distCfg.LockedBaseAddrs = append(distCfg.LockedBaseAddrs, kernel.ActorBech(va.Actor))
			}
		}
	}
	dp, err := GenDistParams(r.Fork(2), distCfg)
	if err != nil {
		return nil, nil, nil, err
	}
	spec.Distributor = DistGenesisJSON(dp)
	ew.dests = c14Destinations(dp)
	horizon := time.Duration(r.Range(1, 48)) * time.Hour
	if r.P(0.4) {
		horizon = time.Duration(r.Range(30, 3000)) * time.Second
	}
	ew.horizon = horizon
	mcfg := MinterGenCfg{MaxPeriods: 4, MaxAmountExp: o.MaxAmtExp, MaxStepsHint: 300, Horizon: horizon, AllowNone: true}
	mp, err := GenMinterParams(r.Fork(3), spec.GenesisTime, BondDenom, mcfg)
	if err != nil {
		return nil, nil, nil, err
	}
	spec.Minter = MinterGenesisJSON(mp, spec.GenesisTime)
	if m, err := MintModelFrom(mp); err == nil {
		ew.model = m
		ew.bounds = m.Boundaries(spec.GenesisTime.Add(horizon), 20)
	}
	// module-account sources get something to sweep
	for _, sd := range dp.SubDistributors {
		for _, s := range sd.Sources {
			if s.Type == disttypes.ModuleAccount && s.Id != disttypes.DistributorMainAccount && r.P(0.5) {
				spec.Balances = append(spec.Balances, kernel.BalSpec{Module: s.Id, Coins: sdk.NewCoin(BondDenom, sdk.NewIntFromBigInt(r.BigLogUniform(minInt(o.MaxAmtExp, 30)))).String()})
			}
		}
	}
	ew.gw = &govWorld{Voter: spec.Clients[0], Attackers: spec.Clients[1:], DistCfg: distCfg, MinterCfg: mcfg, SaneMinter: true, OddNames: prop == "C12"}

	rr := r.Fork(4)
	var gens []TxGen
	gens = append(gens, vw.txGens(nil)...)
	recips := append([]string{}, distCfg.BaseAddrs...)
	gens = append(gens, bankSendGen(spec.Clients, recips, true, o.NatFaults), bankSendGen(spec.Clients, recips, true, o.NatFaults))
	if o.Gov {
		gens = append(gens, ew.gw.genGovTx, ew.gw.genGovTx, ew.gw.genGovTx)
	}
	if o.Sig {
		gens = append(gens, ew.genSig, vw.genSigCreateAccount)
	}
	if o.Adversarial {
		ag := &advGen{w: vw, rng: rr.Fork(9)}
		gens = append(gens, ag.txGen)
	}
	maxTxs := o.MaxTxs
	if maxTxs == 0 {
		maxTxs = 4
	}
	src := &genSource{rng: rr, nBlocks: rr.Range(o.Blocks[0], o.Blocks[1]), MaxTxs: maxTxs, PTx: 0.8, TxGens: gens, Cadence: ew.cadence}
	if o.Sim {
		simOverlay(src, spec)
	}
	active := map[string]bool{}
	src.BlockHook = func(run *kernel.Run, g *kernel.Rng, b *kernel.Block, idx int) {
		if o.BankInj {
			if g.P(0.3) {
				for i := 0; i < g.Range(1, 3); i++ {
					b.BankFail = append(b.BankFail, g.Intn(14))
				}
			}
			if len(ew.dests) > 0 && g.P(0.1) {
				d := ew.dests[g.Intn(len(ew.dests))]
				if active[d] {
					delete(active, d)
					b.FailDestOff = append(b.FailDestOff, d)
				} else {
					active[d] = true
					b.FailDestOn = append(b.FailDestOn, d)
				}
			}
			if g.P(0.06) {
				v := g.Bool()
				b.FailBurn = &v
			}
		}
		if o.Crash && g.P(0.12) {
			if g.Bool() {
				b.Crash = -1
			} else {
				b.Crash = g.Range(1, 24)
			}
		}
		if o.Export && idx > 0 && g.P(0.08) {
			b.Export = true
		}
	}
	return &kernel.Trace{Profile: prop, Seed: seed, Spec: *spec}, src, ew, nil
}

func minInt(a, b int) int {
	if a < b {
		return a
	}
	return b
}

// cadence: regular blocks, jumps, and blocks aimed at emission boundaries, lock ends and the end of voting periods.
func (ew *everythingWorld) cadence(r *kernel.Run, rng *kernel.Rng) int64 {
	dt := ew.cadence0(r, rng)
	// exponential periods are evaluated step by step by the chain: keep simulated time within a few horizons
	limit := ew.spec.GenesisTime.Add(4 * ew.horizon)
	if r.Chain.Now.Add(time.Duration(dt)).After(limit) {
		dt = int64(5*time.Second) + rng.I64n(int64(2*time.Second))
	}
	return dt
}

func (ew *everythingWorld) cadence0(r *kernel.Run, rng *kernel.Rng) int64 {
	now := r.Chain.Now
	if rng.P(0.25) && len(ew.bounds) > 0 {
		for _, b := range ew.bounds {
			if b.After(now) {
				t := b
				switch rng.Intn(4) {
				case 0:
					t = b.Add(-time.Nanosecond)
				case 1:
					t = b.Add(time.Nanosecond)
				}
				if rng.Intn(4) == 0 {
					continue // skip to a later boundary: jump over this one
				}
				if t.After(now) {
					return int64(t.Sub(now))
				}
			}
		}
	}
	if rng.P(0.3) {
		return ew.vw.cadence(r, rng)
	}
	if rng.Intn(8) == 0 {
		return int64(31 * time.Second)
	}
	return regularCadence(r, rng)
}

// genSig: simple signature-registry traffic (valid publish / store requests).
func (ew *everythingWorld) genSig(r *kernel.Run, rng *kernel.Rng) *kernel.Tx {
	creator := ew.vw.Clients[rng.Intn(len(ew.vw.Clients))]
	ref := fmt.Sprintf("%064x", uint64(rng.Intn(4))+1)
	if rng.Bool() {
		return sigMsgTx(creator, &sigtypes.MsgPublishReferencePayloadLink{Creator: kernel.ActorBech(creator), Key: hexHash(ref), Value: fmt.Sprintf("ipfs://%d", rng.Intn(3))}, "publish")
	}
	g := &c15Gen{rng: rng}
	addr := kernel.ActorBech(creator)
	rec, _ := g.record(addr, ref, fmt.Sprintf("ipfs://%d", rng.Intn(3)))
	return sigMsgTx(creator, &sigtypes.MsgStoreSignature{Creator: addr, StorageKey: hexHash(addr + ":" + ref), SignatureJSON: sigJSONOf(rec)}, "store")
}
