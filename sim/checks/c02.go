package checks

import (
	"encoding/json"
	"fmt"
	"math/big"
	"sort"
	"strings"
	"time"

	mintertypes "github.com/chain4energy/c4e-chain/x/cfeminter/types"
	codectypes "github.com/cosmos/cosmos-sdk/codec/types"
	sdk "github.com/cosmos/cosmos-sdk/types"
	banktypes "github.com/cosmos/cosmos-sdk/x/bank/types"
	abci "github.com/tendermint/tendermint/abci/types"

	"verifsim/kernel"
	"verifsim/models"
)

// C02 — emission follows the configured schedule, independent of block cadence.
//
// One seed = one emission schedule executed as k twins (separate real apps) that share checkpoint instants
// but cut the time between them differently. Oracles: exact agreement of cumulative minted at every common
// instant; model window at every block; no negative mint; finished linear periods minted exactly their amount;
// carried remainder equals the fractional part of the model's cumulative emission at the hand-over.

type c02Extra struct {
	Twins [][]int64 `json:"twins"` // per twin: block times as ns offsets from genesis, strictly increasing
	// Rollback: per twin, the offsets of blocks in which governance executes [minter update with other amounts, a
	// message that fails] - x/gov drops the whole proposal, the schedule must stay what it was (F-rollback)
	Rollback [][]int64 `json:"rollback,omitempty"`
}

func init() {
	Register(&Prop{
		ID:    "C02",
		Level: "exploration",
		Rule: "one run = one valid minter configuration (1-6 periods of none/linear/exponential, amounts to 1e30) executed as 3 twin chains " +
			"with different block partitions over shared checkpoints; non-trivial = some block minted and a period or step boundary was crossed; " +
			"distinct = hash of period kinds, cadence classes hit (exact boundary, +-1ns, +-1ms, multi-period jump) and outcome classes",
		Quick:      Tier{Runs: 1200, BudgetSec: 50},
		Thorough:   Tier{Runs: 60000, BudgetSec: 780},
		RunSeed:    c02RunSeed,
		Replay:     c02Replay,
		Real:       []string{"app.App BeginBlock/EndBlock/Commit", "x/cfeminter keeper+types", "x/cfedistributor", "x/bank", "IAVL stores on in-memory disk"},
		Stub:       []string{"Tendermint consensus/p2p/mempool (block producer is the simulator)"},
		Assumes:    []string{"fixed-point window eps=1e-18*(steps^2+periods+10) follows from 18-digit precision, not from the code", "exponential steps per run capped (<=2000 per period)", "horizon <= 150 years"},
		FaultKinds: []string{"F-clock: jumps, minimal steps, exact boundary hits, multi-boundary jumps", "F-rollback (every fourth run: in two of the three twins governance executes [schedule with other amounts, failing message] in 1-3 blocks; the proposal is dropped as a whole)"},
	})
}

func c02Horizon(r *kernel.Rng) time.Duration {
	switch r.Intn(4) {
	case 0:
		return time.Duration(r.Range(10, 3600)) * time.Second
	case 1:
		return time.Duration(r.Range(1, 400)) * 24 * time.Hour
	case 2:
		return time.Duration(r.Range(1, 30)) * 365 * 24 * time.Hour
	}
	return time.Duration(r.Range(30, 150)) * 365 * 24 * time.Hour
}

func c02RunSeed(seed uint64, tier string) *Outcome {
	r := kernel.NewRng(seed)
	spec := baseSpec(r.Fork(1), 2, nil, 12)
	horizon := c02Horizon(r)
	params, err := GenMinterParams(r.Fork(2), spec.GenesisTime, BondDenom, MinterGenCfg{MaxPeriods: 6, MaxAmountExp: 30, MaxStepsHint: 1500, Horizon: horizon, AllowNone: true})
	if err != nil {
		return &Outcome{InfraErr: err}
	}
	spec.Minter = MinterGenesisJSON(params, spec.GenesisTime)
	spec.Distributor = simpleDistributorJSON(kernel.ActorBech(kernel.ClientName(1)))
	model, err := MintModelFrom(params)
	if err != nil {
		return &Outcome{InfraErr: err}
	}
	g := spec.GenesisTime
	end := g.Add(horizon)
	// the last period is unbounded; keep the run inside the step cap
	bounds := model.Boundaries(end, 40)
	rc := r.Fork(3)
	var cps []time.Time
	nb := rc.Range(2, 7)
	for i := 0; i < nb && len(bounds) > 0; i++ {
		b := bounds[rc.Intn(len(bounds))]
		switch rc.Intn(6) {
		case 0:
			b = b.Add(-time.Nanosecond)
		case 1:
			b = b.Add(time.Nanosecond)
		case 2:
			b = b.Add(-time.Millisecond)
		case 3:
			b = b.Add(time.Millisecond)
		}
		cps = append(cps, b)
	}
	nr := rc.Range(1, 5)
	for i := 0; i < nr; i++ {
		cps = append(cps, g.Add(time.Duration(rc.I64n(int64(horizon))+1)))
	}
	cps = append(cps, end)
	var cps2 []time.Time
	for _, t := range cps {
		if t.After(g) && !t.After(end) {
			cps2 = append(cps2, t)
		}
	}
	cps = uniqSortedTimes(cps2)
	if len(cps) == 0 {
		cps = []time.Time{end}
	}
	off := func(t time.Time) int64 { return t.Sub(g).Nanoseconds() }
	// twin A: one block per checkpoint
	var twinA []int64
	for _, t := range cps {
		twinA = append(twinA, off(t))
	}
	// twin B: random intermediate blocks
	mk := func(rr *kernel.Rng, dense bool) []int64 {
		set := map[int64]bool{}
		prev := g
		for _, t := range cps {
			set[off(t)] = true
			span := t.Sub(prev)
			n := rr.Range(0, 5)
			for i := 0; i < n && span > 1; i++ {
				set[off(prev)+rr.I64n(int64(span)-1)+1] = true
			}
			if dense {
				// minimal steps around every boundary inside the interval
				for _, b := range bounds {
					if b.After(prev) && !b.After(t) && rr.P(0.6) {
						for _, d := range []time.Duration{-time.Millisecond, -time.Nanosecond, 0, time.Nanosecond, time.Millisecond} {
							x := b.Add(d)
							if x.After(prev) && x.Before(t) {
								set[off(x)] = true
							}
						}
					}
				}
			}
			prev = t
		}
		out := make([]int64, 0, len(set))
		for k := range set {
			if k > 0 {
				out = append(out, k)
			}
		}
		sort.Slice(out, func(i, j int) bool { return out[i] < out[j] })
		if len(out) > 160 {
			// keep checkpoints, thin the rest deterministically
			keep := map[int64]bool{}
			for _, t := range cps {
				keep[off(t)] = true
			}
			var o2 []int64
			for i, v := range out {
				if keep[v] || i%((len(out)/120)+1) == 0 {
					o2 = append(o2, v)
				}
			}
			out = o2
		}
		return out
	}
	extra := c02Extra{Twins: [][]int64{twinA, mk(r.Fork(4), false), mk(r.Fork(5), true)}}
	if seed%4 == 1 {
		rb := r.Fork(6)
		extra.Rollback = make([][]int64, len(extra.Twins))
		for ti := 1; ti < len(extra.Twins); ti++ {
			offs := extra.Twins[ti]
			for k := rb.Range(1, 3); k > 0 && len(offs) > 0; k-- {
				extra.Rollback[ti] = append(extra.Rollback[ti], offs[rb.Intn(len(offs))])
			}
		}
	}
	tr := &kernel.Trace{Profile: "C02", Seed: seed, Spec: *spec, Extra: mustJSON(extra)}
	o := c02Replay(tr)
	o.Trace = tr
	return o
}

type mintObs struct {
	t      time.Time
	minted sdk.Int // cumulative
}

// c02Monitor checks one twin against the model after every block.
type c02Monitor struct {
	kernel.NopMonitor
	model     *models.MintModel
	params    mintertypes.Params
	supply0   sdk.Int
	prev      sdk.Int
	obs       []mintObs
	evals     int64
	twin      int
	lastSeq   uint32
	firstSeq  uint32
	sumEvents sdk.Int
}

func (m *c02Monitor) Init(r *kernel.Run) {
	m.supply0 = r.Chain.Supply().AmountOf(BondDenom)
	m.prev = sdk.ZeroInt()
	m.sumEvents = sdk.ZeroInt()
	m.lastSeq = r.Chain.App.CfeminterKeeper.GetMinterState(r.Chain.Ctx()).SequenceId
	m.firstSeq = m.lastSeq
	for _, mt := range r.Chain.MinterParams().Minters {
		if mt.SequenceId < m.firstSeq {
			m.firstSeq = mt.SequenceId
		}
	}
}

func (m *c02Monitor) AfterBegin(r *kernel.Run, resp abci.ResponseBeginBlock) {
	c := r.Chain
	if c.Halted != nil {
		reportHalt(r)
		return
	}
	T := c.Now
	cum := c.Supply().AmountOf(BondDenom).Sub(m.supply0)
	delta := cum.Sub(m.prev)
	m.evals++
	if delta.IsNegative() {
		r.Violate("C02", "negative-mint", "supply-decreased", "twin %d: block at %s changed supply by %s", m.twin, T.Format(time.RFC3339Nano), delta)
	}
	// the mint event carries the same amount
	for _, ev := range kernel.EventAttrs(resp.Events, "chain4energy.c4echain.cfeminter.Mint") {
		amt, ok := sdk.NewIntFromString(trimQuotes(ev["amount"]))
		if ok {
			m.sumEvents = m.sumEvents.Add(amt)
			if amt.IsNegative() {
				r.Violate("C02", "negative-mint", "event-negative", "twin %d: mint event amount %s", m.twin, amt)
			}
		}
	}
	e, steps := m.model.Cumulative(T)
	lo, hi := models.Window(e, steps, len(m.model.Periods))
	if cum.BigInt().Cmp(lo) < 0 {
		r.Violate("C02", "schedule", "below-schedule", "twin %d at %s: minted %s < floor(E-eps)=%s (E=%s)", m.twin, T.Format(time.RFC3339Nano), cum, lo, e.FloatString(20))
	} else if cum.BigInt().Cmp(hi) > 0 {
		r.Violate("C02", "schedule", "above-schedule", "twin %d at %s: minted %s > floor(E+eps)=%s (E=%s)", m.twin, T.Format(time.RFC3339Nano), cum, hi, e.FloatString(20))
	}
	if steps > 0 {
		r.Stats.Inc("probe.exp_steps_evaluated")
	}
	if delta.IsPositive() {
		r.Stats.Inc("probe.block_minted")
	}
	// hand-over bookkeeping
	st := c.App.CfeminterKeeper.GetMinterState(c.Ctx())
	if st.SequenceId != m.lastSeq {
		jumped := int(st.SequenceId) - int(m.lastSeq)
		if jumped >= 2 {
			r.Stats.Inc("probe.multi_period_jump")
		}
		r.Stats.Inc("probe.period_handover")
		// finished linear periods minted exactly their amount
		for seq := m.lastSeq; seq < st.SequenceId; seq++ {
			h, found := c.App.CfeminterKeeper.GetMinterStateHistory(c.Ctx(), seq)
			idx := int(seq) - int(m.firstSeq)
			if !found {
				r.Violate("C02", "history", "missing-history", "twin %d: finished period %d has no history entry", m.twin, seq)
				continue
			}
			if idx >= 0 && idx < len(m.model.Periods) && m.model.Periods[idx].Kind == models.MintLinear {
				m.evals++
				if h.AmountMinted.BigInt().Cmp(m.model.Periods[idx].Amount) != 0 {
					r.Violate("C02", "linear-total", "linear-period-total", "twin %d: finished linear period %d minted %s, configured %s", m.twin, seq, h.AmountMinted, m.model.Periods[idx].Amount)
				}
			}
		}
		// carried remainder = frac(E at the hand-over instant)
		idx := int(st.SequenceId) - int(m.firstSeq)
		if idx >= 1 && idx <= len(m.model.Periods)-1 {
			b := *m.model.Periods[idx-1].End
			eb, sb := m.model.Cumulative(b)
			want := models.FracRat(eb)
			got := new(big.Rat).SetFrac(st.RemainderFromPreviousMinter.BigInt(), bigE18)
			diff := new(big.Rat).Sub(got, want)
			diff.Abs(diff)
			// wrap-around near an integer
			alt := new(big.Rat).Sub(big.NewRat(1, 1), diff)
			if alt.Sign() >= 0 && alt.Cmp(diff) < 0 {
				diff = alt
			}
			k := new(big.Int).SetInt64(sb)
			k.Mul(k, k).Add(k, big.NewInt(int64(len(m.model.Periods))+10))
			eps := new(big.Rat).SetFrac(k, bigE18)
			m.evals++
			if diff.Cmp(eps) > 0 {
				r.Violate("C02", "remainder", "carried-remainder", "twin %d: carried remainder %s after period %d, schedule fraction %s", m.twin, st.RemainderFromPreviousMinter, idx, want.FloatString(20))
			}
		}
		m.lastSeq = st.SequenceId
	}
	// cadence probes
	for i, p := range m.model.Periods {
		if p.End != nil {
			d := T.Sub(*p.End)
			switch {
			case d == 0:
				r.Stats.Inc("probe.block_exactly_on_period_end")
			case d == time.Nanosecond || d == -time.Nanosecond:
				r.Stats.Inc("probe.block_1ns_from_period_end")
			case d == time.Millisecond || d == -time.Millisecond:
				r.Stats.Inc("probe.block_1ms_from_period_end")
			}
		}
		_ = i
	}
	if T.Equal(m.model.Start) {
		r.Stats.Inc("probe.block_exactly_on_start")
	}
	m.prev = cum
	m.obs = append(m.obs, mintObs{T, cum})
}

func trimQuotes(s string) string {
	if len(s) >= 2 && s[0] == '"' && s[len(s)-1] == '"' {
		return s[1 : len(s)-1]
	}
	return s
}

func c02Replay(tr *kernel.Trace) *Outcome {
	o := &Outcome{Trace: tr}
	var extra c02Extra
	if err := json.Unmarshal(tr.Extra, &extra); err != nil {
		o.InfraErr = err
		return o
	}
	spec := tr.Spec
	var mons []*c02Monitor
	kinds := ""
	for ti, offs := range extra.Twins {
		run := &kernel.Run{Spec: &spec}
		mon := &c02Monitor{twin: ti}
		run.Monitors = []kernel.Monitor{mon}
		// model from the genesis parameters as the chain stores them
		if pi := run.Start(); pi != nil || run.InfraErr != nil {
			if run.InfraErr != nil {
				o.InfraErr = run.InfraErr
			} else {
				o.InfraErr = fmt.Errorf("genesis rejected: %s", pi.Value)
			}
			return o
		}
		params := run.Chain.MinterParams()
		model, err := MintModelFrom(params)
		if err != nil {
			o.InfraErr = err
			return o
		}
		mon.model, mon.params = model, params
		if ti == 0 {
			for _, p := range model.Periods {
				kinds += fmt.Sprint(int(p.Kind))
			}
		}
		var blocks []kernel.Block
		prev := int64(0)
		rolled := map[int64]bool{}
		if ti < len(extra.Rollback) {
			for _, x := range extra.Rollback[ti] {
				rolled[x] = true
			}
		}
		for _, x := range offs {
			if x <= prev {
				continue
			}
			b := kernel.Block{DtNs: x - prev}
			if rolled[x] {
				if tx := c02RolledBackUpdate(params, spec.Clients[0]); tx != nil {
					b.Txs = []kernel.Tx{*tx}
				}
			}
			blocks = append(blocks, b)
			prev = x
		}
		run.Drive(&listSource{blocks: blocks})
		o.Stats.Merge(&run.Stats)
		o.Evals += mon.evals
		o.Violations = append(o.Violations, run.Violations...)
		mons = append(mons, mon)
		if len(run.Violations) > 0 {
			break
		}
	}
	// partition independence: exact agreement at every common instant
	if len(o.Violations) == 0 && len(mons) > 1 {
		base := map[int64]sdk.Int{}
		for _, ob := range mons[0].obs {
			base[ob.t.UnixNano()] = ob.minted
		}
		for ti := 1; ti < len(mons); ti++ {
			for _, ob := range mons[ti].obs {
				if b, ok := base[ob.t.UnixNano()]; ok {
					o.Evals++
					if !b.Equal(ob.minted) {
						o.Violations = append(o.Violations, &kernel.Violation{Property: "C02", Check: "partition-independence", Signature: "twin-mismatch",
							Message: fmt.Sprintf("at %s twin 0 has minted %s, twin %d %s", ob.t.Format(time.RFC3339Nano), b, ti, ob.minted), Block: -1, TxIndex: -1})
						break
					}
				}
			}
		}
	}
	o.Nontrivial = o.Stats.Counters["probe.block_minted"] > 0 && (o.Stats.Counters["probe.period_handover"] > 0 || o.Stats.Counters["probe.exp_steps_evaluated"] > 0)
	o.Fingerprint = fingerprint("C02", kinds, statsClasses(&o.Stats, "probe."), len(o.Violations) > 0)
	o.Sample = map[string]interface{}{"seed": tr.Seed, "period_kinds(0=none,1=linear,2=exp)": kinds, "twin_block_counts": []int{len(extra.Twins[0]), lenAt(extra.Twins, 1), lenAt(extra.Twins, 2)}, "genesis": spec.GenesisTime}
	return o
}

func lenAt(x [][]int64, i int) int {
	if i < len(x) {
		return len(x[i])
	}
	return 0
}

// c02RolledBackUpdate: the stored schedule with every amount changed (same ids and times, so the handler accepts it),
// followed by a bank send that cannot succeed; executed atomically the way x/gov executes a passed proposal.
func c02RolledBackUpdate(params mintertypes.Params, signer string) *kernel.Tx {
	p := cloneMinterParams(params)
	for _, m := range p.Minters {
		switch cfg := m.Config.GetCachedValue().(type) {
		case *mintertypes.LinearMinting:
			any, _ := codectypes.NewAnyWithValue(&mintertypes.LinearMinting{Amount: cfg.Amount.MulRaw(7).AddRaw(13)})
			m.Config = any
		case *mintertypes.ExponentialStepMinting:
			any, _ := codectypes.NewAnyWithValue(&mintertypes.ExponentialStepMinting{Amount: cfg.Amount.MulRaw(3).AddRaw(1), AmountMultiplier: cfg.AmountMultiplier, StepDuration: cfg.StepDuration})
			m.Config = any
		}
	}
	upd := &mintertypes.MsgUpdateParams{Authority: gov(), MintDenom: p.MintDenom, StartTime: p.StartTime, Minters: p.Minters}
	huge, _ := sdk.NewIntFromString("1" + strings.Repeat("0", 40))
	failing := &banktypes.MsgSend{FromAddress: gov(), ToAddress: kernel.ActorBech(signer), Amount: sdk.NewCoins(sdk.NewCoin("nosuchcoin", huge))}
	j1, err1 := kernel.MsgToJSON(upd)
	j2, err2 := kernel.MsgToJSON(failing)
	if err1 != nil || err2 != nil {
		return nil
	}
	return &kernel.Tx{Signer: signer, Msgs: []jsonRaw{j1, j2}, Route: "atomic", Note: "rolled-back-gov-update"}
}
