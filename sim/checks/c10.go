package checks

import (
	"verifsim/kernel"
)

// C10 — emission and distribution can never halt the chain.

func init() {
	Register(&Prop{
		ID:    "C10",
		Level: "exploration",
		Rule: "one run = the everything profile with magnitudes up to just under 1e36 (validated minter and sub-distributor configurations, vesting and bank traffic), real x/gov parameter updates of all seven kinds applied at schedule-relative instants " +
			"(start/end times moved into the past and future, sub-distributors replaced, shares changed), injected and natural bank failures with persistent patterns, node crashes, and export-and-restart from the exported genesis mid-run; " +
			"oracle: no panic escapes BeginBlock/EndBlock through the repository's code, and a restart from exported genesis initialises and keeps producing blocks. non-trivial = at least one parameter update was applied or one export-restart/fault fired; " +
			"distinct = hash of configuration shapes, faults fired, probes and outcome",
		Quick:      Tier{Runs: 1000, BudgetSec: 55},
		Thorough:   Tier{Runs: 20000, BudgetSec: 780},
		RunSeed:    c10RunSeed,
		Replay:     c10Replay,
		Real:       append([]string{"x/gov v1 proposals", "genesis export and InitChain of a fresh app", "restart over the surviving disk after a crash"}, distReal...),
		Stub:       append([]string{"bank keeper of the distributor wrapped by the guarded hook for injected failures"}, distStub...),
		Assumes:    []string{"magnitudes inside the property's bounds: amounts < 1e36, periods and steps >= 1 s, multipliers <= 1 (updates outside are generated only with a non-governance authority)", "sources never name staking pools, distribution, cfeminter or cfevesting accounts", "a panic outside the repository's block logic is a harness error (exit 2), not a violation"},
		FaultKinds: []string{"F-clock", "F-gov", "F-bank-inj", "F-bank-nat", "F-export", "F-crash", "F-simulate + F-rollback (every third run)"},
	})
}

var c10Opts = everythingOpts{MaxAmtExp: 35, Gov: true, BankInj: true, NatFaults: true, Export: true, Crash: true, Sig: false, Blocks: [2]int{15, 45}}

func c10RunSeed(seed uint64, tier string) *Outcome {
	if seed%3 == 0 {
		// the distributor-focused profile with dust-sized and huge inflows: many sub-distributor shapes per second,
		// where rounding of shares (not conservation) decides whether BeginBlock survives
		r := kernel.NewRng(seed)
		exp := []int{2, 6, 35}[r.Intn(3)]
		opts := distProfileOpts{Prop: "C10", Blocks: [2]int{10, 40}, MaxAmtExp: exp}
		spec, cfg, err := buildDistWorld(r.Fork(10), opts)
		if err != nil {
			return &Outcome{InfraErr: err}
		}
		tr := &kernel.Trace{Profile: "C10", Seed: seed, Spec: *spec}
		return c10Exec(tr, distSource(r.Fork(11), spec, cfg, opts))
	}
	o10 := c10Opts
	o10.Sim = seed%3 == 1
	tr, src, _, err := buildEverything(seed, "C10", o10)
	if err != nil {
		return &Outcome{InfraErr: err}
	}
	return c10Exec(tr, src)
}

func c10Replay(tr *kernel.Trace) *Outcome { return c10Exec(tr, nil) }

func c10Exec(tr *kernel.Trace, src kernel.Source) *Outcome {
	pm := &c13Monitor{classes: map[string]bool{}} // counts applied updates (its C13 findings are reported too)
	_, o := execTrace(tr, src, []kernel.Monitor{haltMonitor{}, pm}, true)
	// keep only what this property is about: halts, and import failures of exported state
	var keep []*kernel.Violation
	for _, v := range o.Violations {
		if v.Property == "C10" || v.Property == "C12" {
			keep = append(keep, v)
		}
	}
	o.Violations = keep
	o.Evals = int64(o.Stats.Counters["tx.ok"]+o.Stats.Counters["tx.rejected"]) + int64(len(tr.Blocks))*2
	c := o.Stats.Counters
	o.Nontrivial = c["probe.params_changed_by_passed_proposal"] > 0 || c["fault.export_restart"] > 0 || c["fault.crash_in_commit"] > 0
	o.Fingerprint = fingerprint(statsClasses(&o.Stats, "probe.", "fault."), traceKinds(o.Trace), len(o.Violations) > 0)
	if o.Trace != nil {
		o.Sample = map[string]interface{}{"seed": o.Trace.Seed, "blocks": len(o.Trace.Blocks), "updates_applied": c["probe.params_changed_by_passed_proposal"], "export_restarts": c["fault.export_restart"], "crashes": c["fault.crash_in_commit"] + c["fault.crash_before_commit"]}
	}
	return o
}
