package checks

import "verifsim/kernel"

// C18 — emitted events report the amounts that actually moved. Rides on the distributor profile (Mint,
// Distribution, DistributionBurn events against M-dist and the bank's own events) and on the vesting profile
// (WithdrawAvailable events against per-pool withdrawn deltas), chosen by the run seed.

func init() {
	Register(&Prop{
		ID:    "C18",
		Level: "exploration",
		Rule: "even seeds: the C03/C04 distributor profile, per block Mint event == coins minted by the minter module and per sub-distributor sum(Distribution+DistributionBurn amounts) == M-dist inflow minus what stays in main; " +
			"odd seeds: the vesting profile with owners holding several pools maturing at different times, per accepted withdraw/send one event per pool that paid, amount == that pool's withdrawn delta, sum == coins paid. " +
			"non-trivial = events of the checked kind were produced; distinct = hash of configuration shape or message kinds, probes and outcome",
		Quick:    Tier{Runs: 1500, BudgetSec: 50},
		Thorough: Tier{Runs: 40000, BudgetSec: 780},
		RunSeed: func(seed uint64, tier string) *Outcome {
			if seed%2 == 0 {
				o := distRunSeed("C18", seed, tier)
				if o.Trace != nil {
					o.Trace.Profile = "C18"
					o.Trace.Extra = mustJSON(map[string]string{"half": "dist"})
				}
				return o
			}
			o := vestRunSeed("C18", seed, tier)
			if o.Trace != nil {
				o.Trace.Profile = "C18"
				o.Trace.Extra = mustJSON(map[string]string{"half": "vesting"})
			}
			return o
		},
		Replay: func(tr *kernel.Trace) *Outcome {
			if string(tr.Extra) != "" && indexOf(string(tr.Extra), "vesting") >= 0 {
				return vestReplay("C18", tr)
			}
			return distReplay("C18", tr)
		},
		Real: distReal, Stub: distStub,
		Assumes:    []string{"a share that stays in the distributor's main account is not a send and has no event (narrow reading of the README's 'one send operation')"},
		FaultKinds: []string{"F-clock", "F-order", "F-crash (every fifth run)", "F-simulate + F-rollback (every fifth run)", "F-export (every fifth run)"},
	})
}
