package checks

import (
	"bytes"
	"crypto"
	"crypto/ecdsa"
	"crypto/elliptic"
	"crypto/hmac"
	"crypto/rsa"
	"crypto/sha256"
	"crypto/x509"
	"encoding/asn1"
	"encoding/base64"
	"encoding/hex"
	"encoding/json"
	"encoding/pem"
	"fmt"
	"math/big"
	"strings"

	sigkeeper "github.com/chain4energy/c4e-chain/x/cfesignature/keeper"
	sigtypes "github.com/chain4energy/c4e-chain/x/cfesignature/types"
	sdk "github.com/cosmos/cosmos-sdk/types"
	abci "github.com/tendermint/tendermint/abci/types"

	"verifsim/kernel"
)

// C15 — signature registry: payload links are write-once, verification is sound.
//
// M-sig is fed only by the messages the monitor sees (never by chain state): a write-once map of payload links and
// a last-write-wins map of signature records. Every VerifySignature query is answered independently (own payload
// reconstruction, certificate parsing and ECDSA/RSA verification) and compared with the chain's answer; after every
// message the raw store value of every published link is compared with the model.

func init() {
	Register(&Prop{
		ID:    "C15",
		Level: "exploration",
		Rule: "one run = 8-20 blocks (some ending in a node crash before/inside Commit and restart) of publish-link / store-signature messages aimed at a small set of colliding reference ids and addresses " +
			"(valid ECDSA P-256 and RSA-2048 records, and records with exactly one field tampered: signature, algorithm, certificate, address, reference id, payload link), followed by VerifySignature queries on every combination; " +
			"non-trivial = at least one valid verification and one tampered verification were answered; distinct = hash of (record kind, tamper kind, answer) set, collisions hit, crashes fired",
		Quick:      Tier{Runs: 2500, BudgetSec: 50},
		Thorough:   Tier{Runs: 30000, BudgetSec: 700},
		RunSeed:    c15RunSeed,
		Replay:     c15Replay,
		Real:       []string{"x/cfesignature message server (keeper.NewMsgServerImpl) on cache-wrapped deliver contexts", "x/cfesignature VerifySignature behind the gRPC query router / ABCI Query", "IAVL stores on the simulated disk, Commit, restart"},
		Stub:       []string{"Tendermint", "the module's Msg service is not registered in the shipped app, so its transactions cannot be routed; the message server is called directly"},
		Assumes:    []string{"certificates are fixed fixtures (3 ECDSA P-256, 2 RSA-2048); ECDSA signatures use a deterministic nonce computed by the harness", "this property is mostly input-driven; clock and faults contribute the crash/restart durability of the registry"},
		FaultKinds: []string{"F-order (colliding keys, repeated publishes)", "F-malformed (single-field tampering)", "F-crash (before / inside Commit, restart)"},
	})
}

// ---- deterministic signing -------------------------------------------------------------------

func hexHash(s string) string {
	h := sha256.Sum256([]byte(s))
	return hex.EncodeToString(h[:])
}

func ecdsaKey(i int) *ecdsa.PrivateKey {
	d, _ := new(big.Int).SetString(sigFixtureECDSA[i].D, 16)
	k := &ecdsa.PrivateKey{D: d}
	k.Curve = elliptic.P256()
	k.X, k.Y = k.Curve.ScalarBaseMult(d.Bytes())
	return k
}

// signECDSADeterministic: textbook ECDSA over P-256 with nonce k = HMAC-SHA256(d, digest || counter) mod n.
func signECDSADeterministic(priv *ecdsa.PrivateKey, digest []byte) []byte {
	c := priv.Curve
	n := c.Params().N
	e := new(big.Int).SetBytes(digest)
	for ctr := byte(0); ; ctr++ {
		mac := hmac.New(sha256.New, priv.D.Bytes())
		mac.Write(digest)
		mac.Write([]byte{ctr})
		k := new(big.Int).SetBytes(mac.Sum(nil))
		k.Mod(k, n)
		if k.Sign() == 0 {
			continue
		}
		x, _ := c.ScalarBaseMult(k.Bytes())
		r := new(big.Int).Mod(x, n)
		if r.Sign() == 0 {
			continue
		}
		kinv := new(big.Int).ModInverse(k, n)
		s := new(big.Int).Mul(r, priv.D)
		s.Add(s, e)
		s.Mul(s, kinv)
		s.Mod(s, n)
		if s.Sign() == 0 {
			continue
		}
		der, _ := asn1.Marshal(struct{ R, S *big.Int }{r, s})
		return der
	}
}

func rsaKey(i int) *rsa.PrivateKey {
	b, _ := pem.Decode([]byte(sigFixtureRSA[i].KeyPEM))
	k, err := x509.ParsePKCS1PrivateKey(b.Bytes)
	if err != nil {
		panic(err)
	}
	return k
}

// ---- the model's own verification ----------------------------------------------------------------

type sigRecord struct{ Signature, Algorithm, Certificate string }

func modelVerify(rec sigRecord, payload string) bool {
	sigBytes, err := base64.StdEncoding.DecodeString(rec.Signature)
	if err != nil {
		return false
	}
	// "the stored certificate": what every X.509 reader takes from a PEM text - the first block labelled CERTIFICATE
	// (blocks with other labels are not certificates, whatever their bytes are)
	var blk *pem.Block
	for rest := []byte(rec.Certificate); ; {
		blk, rest = pem.Decode(rest)
		if blk == nil {
			return false
		}
		if blk.Type == "CERTIFICATE" {
			break
		}
	}
	cert, err := x509.ParseCertificate(blk.Bytes)
	if err != nil {
		return false
	}
	digest := sha256.Sum256([]byte(payload))
	switch rec.Algorithm {
	case "ecdsaWithSha256":
		pk, ok := cert.PublicKey.(*ecdsa.PublicKey)
		if !ok {
			return false
		}
		return ecdsa.VerifyASN1(pk, digest[:], sigBytes)
	case "sha256WithRsaEncryption":
		pk, ok := cert.PublicKey.(*rsa.PublicKey)
		if !ok {
			return false
		}
		return rsa.VerifyPKCS1v15(pk, crypto.SHA256, digest[:], sigBytes) == nil
	}
	return false // dsaWithSha256 is not verifiable, anything else is unknown
}

type sigModel struct {
	links map[string]string
	sigs  map[string]sigRecord
}

// ---- generator -----------------------------------------------------------------------------------

type c15Gen struct {
	rng     *kernel.Rng
	refIDs  []string
	addrs   []string
	links   []string
	qQuota  int
	qIssued int
	lastBlk int
}

func (g *c15Gen) record(addr, refID, link string) (sigRecord, string) {
	payload := hexHash(addr + ":" + refID + ":" + link)
	digest := sha256.Sum256([]byte(payload))
	if g.rng.P(0.7) {
		i := g.rng.Intn(2)
		sig := signECDSADeterministic(ecdsaKey(i), digest[:])
		return sigRecord{base64.StdEncoding.EncodeToString(sig), "ecdsaWithSha256", sigFixtureECDSA[i].CertPEM}, "ecdsa"
	}
	i := g.rng.Intn(2)
	sig, err := rsa.SignPKCS1v15(nil, rsaKey(i), crypto.SHA256, digest[:])
	if err != nil {
		panic(err)
	}
	return sigRecord{base64.StdEncoding.EncodeToString(sig), "sha256WithRsaEncryption", sigFixtureRSA[i].CertPEM}, "rsa"
}

func (g *c15Gen) tamper(rec sigRecord) (sigRecord, string) {
	switch g.rng.Intn(9) {
	case 6:
		rec.Certificate = ""
		return rec, "certificate-empty"
	case 7:
		rec.Algorithm = ""
		return rec, "algorithm-empty"
	case 8:
		rec.Signature = ""
		return rec, "signature-empty"
	case 0:
		b, _ := base64.StdEncoding.DecodeString(rec.Signature)
		if len(b) > 10 {
			b[len(b)-3] ^= 0x01
		}
		rec.Signature = base64.StdEncoding.EncodeToString(b)
		return rec, "signature-bit"
	case 1:
		if rec.Algorithm == "ecdsaWithSha256" {
			rec.Algorithm = "sha256WithRsaEncryption"
		} else {
			rec.Algorithm = "ecdsaWithSha256"
		}
		return rec, "algorithm"
	case 2:
		rec.Algorithm = "dsaWithSha256"
		return rec, "algorithm-dsa"
	case 3:
		if strings.Contains(rec.Algorithm, "ecdsa") {
			rec.Certificate = sigFixtureECDSA[2].CertPEM
		} else {
			rec.Certificate = sigFixtureRSA[1].CertPEM
			if rec.Certificate == sigFixtureRSA[1].CertPEM && g.rng.Bool() {
				rec.Certificate = sigFixtureRSA[0].CertPEM
			}
		}
		return rec, "certificate-other-key"
	case 4:
		rec.Signature = "@@not-base64@@"
		return rec, "signature-garbage"
	default:
		rec.Certificate = "-----BEGIN CERTIFICATE-----\nAAAA\n-----END CERTIFICATE-----\n"
		return rec, "certificate-garbage"
	}
}

// reshape rewrites the certificate field as a PEM text with several blocks: the certificate the record was made for and
// the certificate of another key, one of them under a label that does not denote a certificate.
func (g *c15Gen) reshape(rec sigRecord) (sigRecord, string) {
	own, _ := pem.Decode([]byte(rec.Certificate))
	if own == nil || own.Type != "CERTIFICATE" {
		return rec, ""
	}
	otherPEM := sigFixtureECDSA[2].CertPEM
	if g.rng.Bool() {
		otherPEM = sigFixtureRSA[g.rng.Intn(2)].CertPEM
	}
	if otherPEM == rec.Certificate {
		otherPEM = sigFixtureECDSA[1].CertPEM
	}
	other, _ := pem.Decode([]byte(otherPEM))
	label := []string{"X509 CRL", "PUBLIC KEY", "CERTIFICATE REQUEST"}[g.rng.Intn(3)]
	enc := func(typ string, der []byte) string {
		return string(pem.EncodeToMemory(&pem.Block{Type: typ, Bytes: der}))
	}
	switch g.rng.Intn(4) {
	case 0:
		// the signer's certificate under a foreign label first, somebody else's CERTIFICATE after it
		rec.Certificate = enc(label, own.Bytes) + enc("CERTIFICATE", other.Bytes)
		return rec, "cert-own-mislabelled-then-other"
	case 1:
		rec.Certificate = enc(label, other.Bytes) + enc("CERTIFICATE", own.Bytes)
		return rec, "cert-other-mislabelled-then-own"
	case 2:
		rec.Certificate = enc("CERTIFICATE", own.Bytes) + enc("CERTIFICATE", other.Bytes)
		return rec, "cert-own-then-other"
	default:
		rec.Certificate = enc(label, own.Bytes)
		return rec, "cert-own-mislabelled-only"
	}
}

func sigJSONOf(rec sigRecord) string {
	bz, _ := json.Marshal(map[string]string{"signature": rec.Signature, "algorithm": rec.Algorithm, "certificate": rec.Certificate})
	return string(bz)
}

func (g *c15Gen) txGen(r *kernel.Run, _ *kernel.Rng) *kernel.Tx {
	rng := g.rng
	creator := kernel.ClientName(rng.Intn(3))
	refID := g.refIDs[rng.Intn(len(g.refIDs))]
	addr := g.addrs[rng.Intn(len(g.addrs))]
	link := g.links[rng.Intn(len(g.links))]
	if rng.P(0.45) {
		// publish a payload link (colliding keys on purpose)
		key := hexHash(refID)
		switch rng.Intn(8) {
		case 0:
			key = strings.ToUpper(key) // another spelling of the same hex digest is another key
		case 1:
			key = key + " "
		case 2:
			key = hexHash(key) // the digest of a key somebody may have published already
		}
		switch rng.Intn(10) {
		case 0:
			link = "" // an empty link is a valid message
		case 1:
			link = " "
		}
		return sigMsgTx(creator, &sigtypes.MsgPublishReferencePayloadLink{Creator: kernel.ActorBech(creator), Key: key, Value: link}, "publish")
	}
	rec, kind := g.record(addr, refID, link)
	note := "store-valid-" + kind
	if rng.P(0.4) {
		var tk string
		rec, tk = g.tamper(rec)
		note = "store-tampered-" + tk
	}
	if rng.P(0.2) {
		var sk string
		if rec, sk = g.reshape(rec); sk != "" {
			note += "+" + sk
			r.Stats.Inc("probe.certificate_field_with_several_pem_blocks")
		}
	}
	storageKey := hexHash(addr + ":" + refID)
	switch rng.Intn(10) {
	case 0:
		// stored under another address' key: verification for the real address must not find it valid
		storageKey = hexHash(g.addrs[rng.Intn(len(g.addrs))] + ":" + refID)
		note += "+other-address-key"
	case 1:
		storageKey = hexHash(addr + ":" + g.refIDs[rng.Intn(len(g.refIDs))])
		note += "+other-refid-key"
	}
	return sigMsgTx(creator, &sigtypes.MsgStoreSignature{Creator: kernel.ActorBech(creator), StorageKey: storageKey, SignatureJSON: sigJSONOf(rec)}, note)
}

func sigMsgTx(signer string, msg sdk.Msg, note string) *kernel.Tx {
	t := msgTx(signer, msg, "sig")
	if t != nil {
		t.Note = note
	}
	return t
}

func (g *c15Gen) NextQuery(r *kernel.Run, b *kernel.Block) *kernel.Query {
	if g.lastBlk != r.BlockIdx {
		g.lastBlk, g.qIssued, g.qQuota = r.BlockIdx, 0, g.rng.Range(2, 8)
	}
	if g.qIssued >= g.qQuota {
		return nil
	}
	g.qIssued++
	req := &sigtypes.QueryVerifySignatureRequest{ReferenceId: g.refIDs[g.rng.Intn(len(g.refIDs))], TargetAccAddress: g.addrs[g.rng.Intn(len(g.addrs))]}
	bz, _ := req.Marshal()
	return &kernel.Query{Path: "/chain4energy.c4echain.cfesignature.Query/VerifySignature", Data: base64.StdEncoding.EncodeToString(bz)}
}

type c15Source struct {
	*genSource
	g *c15Gen
}

func (s *c15Source) NextQuery(r *kernel.Run, b *kernel.Block) *kernel.Query {
	return s.g.NextQuery(r, b)
}

// ---- monitor -------------------------------------------------------------------------------------

type c15Monitor struct {
	kernel.NopMonitor
	m       sigModel
	evals   int64
	classes map[string]bool
	pending []func() // model updates of the current block, applied to the model at commit (a crashed block is re-executed, same effect)
}

func (m *c15Monitor) AfterTx(r *kernel.Run, tx *kernel.Tx, msgs []sdk.Msg, res *kernel.TxResult) {
	if len(msgs) != 1 {
		return
	}
	m.evals++
	if res.Panic != nil {
		r.Violate("C20", "message-panic", "handler-panic:"+sdk.MsgTypeURL(msgs[0])+"@"+res.Panic.Site(), "%s panicked: %s", sdk.MsgTypeURL(msgs[0]), firstLineOf(res.Panic.Value))
		return
	}
	switch t := msgs[0].(type) {
	case *sigtypes.MsgPublishReferencePayloadLink:
		old, exists := m.m.links[t.Key]
		if exists {
			r.Stats.Inc("probe.publish_on_existing_key")
			if res.OK {
				r.Violate("C15", "write-once", "publish-overwrite-accepted", "publishing on key %s accepted although a link (%q) was already stored", t.Key[:12], old)
			}
		} else if res.OK {
			m.m.links[t.Key] = t.Value
			r.Stats.Inc("probe.link_published")
		} else if t.Key != "" {
			r.Violate("C15", "write-once", "first-publish-rejected", "first publication on key %s rejected: %s", t.Key[:12], firstLineOf(res.Log))
		}
	case *sigtypes.MsgStoreSignature:
		if res.OK {
			var js map[string]interface{}
			if err := json.Unmarshal([]byte(t.SignatureJSON), &js); err == nil {
				s, _ := js["signature"].(string)
				a, _ := js["algorithm"].(string)
				c, _ := js["certificate"].(string)
				m.m.sigs[t.StorageKey] = sigRecord{s, a, c}
				r.Stats.Inc("probe.signature_stored")
			}
		}
	}
	// raw store: every published link still holds the first value
	store := r.Chain.StoreDump(sigtypes.StoreKey)
	for k, v := range m.m.links {
		got, ok := store[sigtypes.PayloadLinkKey+k]
		if !ok {
			r.Violate("C15", "write-once", "published-link-removed", "payload link %s vanished from the store after %s", k[:12], sdk.MsgTypeURL(msgs[0]))
		} else if !bytes.Equal(got, []byte(v)) {
			r.Violate("C15", "write-once", "published-link-overwritten", "payload link %s changed from %q to %q after %s", k[:12], v, string(got), sdk.MsgTypeURL(msgs[0]))
		}
	}
}

func (m *c15Monitor) AfterQuery(r *kernel.Run, q *kernel.Query, resp abci.ResponseQuery, pi *kernel.PanicInfo) {
	if !strings.HasSuffix(q.Path, "/VerifySignature") {
		return
	}
	m.evals++
	if pi != nil || kernel.IsErrPanic(resp.Codespace, resp.Code, resp.Log) {
		r.Violate("C20", "query-panic", "query-panic:cfesignature.Query/VerifySignature", "VerifySignature panicked: %s", firstLineOf(resp.Log))
		return
	}
	data, _ := base64.StdEncoding.DecodeString(q.Data)
	var req sigtypes.QueryVerifySignatureRequest
	if err := req.Unmarshal(data); err != nil {
		return
	}
	rec, haveSig := m.m.sigs[hexHash(req.TargetAccAddress+":"+req.ReferenceId)]
	link, haveLink := m.m.links[hexHash(req.ReferenceId)]
	want := haveSig && haveLink && len(req.ReferenceId) == 64 && req.TargetAccAddress != "" && modelVerify(rec, hexHash(req.TargetAccAddress+":"+req.ReferenceId+":"+link))
	got := resp.Code == 0
	cls := fmt.Sprintf("sig=%v link=%v want=%v got=%v alg=%s", haveSig, haveLink, want, got, rec.Algorithm)
	m.classes[cls] = true
	if want {
		r.Stats.Inc("probe.verify_expected_valid")
	} else if haveSig && haveLink {
		r.Stats.Inc("probe.verify_expected_invalid_with_record_and_link")
	}
	if want != got {
		sig := "valid-record-rejected"
		if got {
			sig = "invalid-record-accepted"
		}
		r.Violate("C15", "verification-sound", sig, "VerifySignature(ref %s.., addr %s): chain says valid=%v (%s), independent verification says %v", req.ReferenceId[:8], req.TargetAccAddress, got, firstLineOf(resp.Log), want)
		return
	}
	if got {
		var out sigtypes.QueryVerifySignatureResponse
		if err := out.Unmarshal(resp.Value); err != nil {
			r.InfraErr = err
			return
		}
		// the stored timestamp is read from the registry itself (it was set by the chain at store time)
		stored, err := r.Chain.App.CfesignatureKeeper.GetSignature(r.Chain.Ctx(), hexHash(req.TargetAccAddress+":"+req.ReferenceId))
		if err != nil || stored == nil {
			r.Violate("C15", "verification-sound", "verified-without-record", "VerifySignature answered valid but the registry has no record")
			return
		}
		if out.Valid != "valid" {
			r.Violate("C15", "returned-fields", "valid-flag", "valid verification returned Valid=%q", out.Valid)
		}
		if out.Signature != rec.Signature || out.Algorithm != rec.Algorithm || out.Timestamp != stored.Timestamp {
			r.Violate("C15", "returned-fields", "signature-algorithm-timestamp", "VerifySignature returned signature/algorithm/timestamp that differ from the stored record")
		}
		if out.Certificate != rec.Certificate {
			r.Violate("C15", "returned-fields", "certificate-field", "VerifySignature returned %q.. in the certificate field, stored certificate is %q..", clip(out.Certificate, 24), clip(rec.Certificate, 24))
		}
	}
}

func clip(s string, n int) string {
	if len(s) > n {
		return s[:n]
	}
	return s
}

func c15RunSeed(seed uint64, tier string) *Outcome {
	r := kernel.NewRng(seed)
	spec := baseSpec(r.Fork(1), 3, nil, 12)
	spec.Distributor = simpleDistributorJSON(kernel.ActorBech("dist-sink"))
	rr := r.Fork(2)
	g := &c15Gen{rng: rr.Fork(1), lastBlk: -1}
	for i := 0; i < rr.Range(2, 4); i++ {
		g.refIDs = append(g.refIDs, fmt.Sprintf("%064x", rr.U64()))
	}
	for i := 0; i < rr.Range(2, 3); i++ {
		g.addrs = append(g.addrs, kernel.ActorBech(kernel.ClientName(i)))
	}
	if rr.P(0.3) {
		g.addrs = append(g.addrs, "did:example:"+fmt.Sprint(rr.Intn(100)))
	}
	if rr.P(0.4) {
		// the other spelling of an address is another string: what was signed for one is not a record of the other
		g.addrs = append(g.addrs, strings.ToUpper(g.addrs[0]))
	}
	for i := 0; i < rr.Range(2, 3); i++ {
		g.links = append(g.links, fmt.Sprintf("ipfs://%x", rr.U64()))
	}
	if rr.P(0.6) {
		// links that differ only in trailing separator characters of the signed text (address:reference:link)
		g.links = append(g.links, g.links[0]+":")
		if rr.Bool() {
			g.links = append(g.links, g.links[0]+"::")
		}
	}
	src := &c15Source{genSource: &genSource{rng: rr, nBlocks: rr.Range(8, 20), MaxTxs: 5, PTx: 0.9, TxGens: []TxGen{g.txGen},
		Cadence: func(_ *kernel.Run, x *kernel.Rng) int64 { return int64(5e9) + x.I64n(2e9) }}, g: g}
	src.BlockHook = func(_ *kernel.Run, x *kernel.Rng, b *kernel.Block, idx int) {
		if x.P(0.15) {
			if x.Bool() {
				b.Crash = -1
			} else {
				b.Crash = x.Range(1, 24)
			}
		}
	}
	tr := &kernel.Trace{Profile: "C15", Seed: seed, Spec: *spec}
	return c15Exec(tr, src)
}

func c15Replay(tr *kernel.Trace) *Outcome { return c15Exec(tr, nil) }

func c15Exec(tr *kernel.Trace, src kernel.Source) *Outcome {
	mon := &c15Monitor{m: sigModel{links: map[string]string{}, sigs: map[string]sigRecord{}}, classes: map[string]bool{}}
	_, o := execTrace(tr, src, []kernel.Monitor{mon, haltMonitor{}}, false)
	o.Evals = mon.evals
	o.Nontrivial = o.Stats.Counters["probe.verify_expected_valid"] > 0 && o.Stats.Counters["probe.verify_expected_invalid_with_record_and_link"] > 0
	cl := ""
	for _, k := range kernel.SortedKeys(mon.classes) {
		cl += k + ";"
	}
	notes := map[string]bool{}
	if o.Trace != nil {
		for _, b := range o.Trace.Blocks {
			for _, t := range b.Txs {
				notes[t.Note] = true
			}
		}
	}
	ns := ""
	for _, k := range kernel.SortedKeys(notes) {
		ns += k + ";"
	}
	o.Fingerprint = fingerprint(cl, ns, statsClasses(&o.Stats, "fault."), len(o.Violations) > 0)
	if o.Trace != nil {
		o.Sample = map[string]interface{}{"seed": o.Trace.Seed, "blocks": len(o.Trace.Blocks), "message_kinds": ns, "answer_classes": cl}
	}
	return o
}

var _ = sigkeeper.NewMsgServerImpl
