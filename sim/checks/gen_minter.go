package checks

import (
	"encoding/json"
	"fmt"
	"math/big"
	"time"

	mintertypes "github.com/chain4energy/c4e-chain/x/cfeminter/types"
	codectypes "github.com/cosmos/cosmos-sdk/codec/types"
	sdk "github.com/cosmos/cosmos-sdk/types"

	"verifsim/kernel"
	"verifsim/models"
)

// MinterGenCfg bounds the generated emission schedules.
type MinterGenCfg struct {
	MaxPeriods   int
	MaxAmountExp int   // amounts up to 10^MaxAmountExp
	MaxStepsHint int64 // an exponential period never spans more than this many steps inside the horizon
	Horizon      time.Duration
	AllowNone    bool
}

var bigE18 = new(big.Int).Exp(big.NewInt(10), big.NewInt(18), nil)

func genDuration(r *kernel.Rng, min, max time.Duration) time.Duration {
	// log-uniform between min and max, with a bias to round values
	if max <= min {
		return min
	}
	ratio := float64(max) / float64(min)
	f := r.F()
	d := time.Duration(float64(min) * pow(ratio, f))
	switch r.Intn(4) {
	case 0:
		d = d.Truncate(time.Second)
	case 1:
		d = d.Truncate(time.Millisecond)
	case 2:
		d = d.Truncate(time.Hour)
	}
	if d < min {
		d = min
	}
	if d > max {
		d = max
	}
	return d
}

func pow(b, e float64) float64 {
	// small dependency-free pow for positive base
	if e == 0 {
		return 1
	}
	// exp(e*ln b) via math is fine, but keep it simple and deterministic across platforms
	return mathPow(b, e)
}

func genMultiplier(r *kernel.Rng) sdk.Dec {
	switch r.Intn(8) {
	case 0:
		return sdk.ZeroDec()
	case 1:
		return sdk.OneDec()
	case 2:
		return sdk.NewDecWithPrec(5, 1)
	case 3:
		return sdk.NewDecWithPrec(int64(r.Range(1, 999)), 18) // tiny k/10^18
	case 4:
		return sdk.OneDec().Sub(sdk.NewDecWithPrec(int64(r.Range(1, 999)), 18)) // just under 1
	default:
		v := r.BigBelow(new(big.Int).Add(bigE18, big.NewInt(1)))
		return sdk.NewDecFromBigIntWithPrec(v, 18)
	}
}

// GenMinterParams draws a valid emission schedule (filtered by the repository's own Validate()).
func GenMinterParams(r *kernel.Rng, genesis time.Time, denom string, cfg MinterGenCfg) (mintertypes.Params, error) {
	for attempt := 0; attempt < 50; attempt++ {
		n := r.Range(1, cfg.MaxPeriods)
		var start time.Time
		switch r.Intn(5) {
		case 0:
			start = genesis
		case 1:
			start = genesis.Add(-genDuration(r, time.Second, 2*365*24*time.Hour))
		case 2:
			start = genesis.Add(genDuration(r, time.Nanosecond, 10*time.Second))
		default:
			start = genesis.Add(genDuration(r, time.Second, cfg.Horizon/4))
		}
		if r.Bool() {
			start = start.Truncate(time.Millisecond)
		}
		var minters []*mintertypes.Minter
		// sequence ids are consecutive but need not start at 1 (validation only asks for a first id > 0)
		idBase := uint32(0)
		if r.P(0.3) {
			idBase = uint32(r.Range(1, 8))
		}
		prev := start
		for i := 0; i < n; i++ {
			last := i == n-1
			var end *time.Time
			var length time.Duration
			if !last {
				length = genDuration(r, time.Second, cfg.Horizon/time.Duration(n))
				e := prev.Add(length)
				if r.Bool() {
					e2 := e.Truncate(time.Millisecond)
					if e2.Sub(prev) >= time.Second {
						e = e2
					}
				}
				length = e.Sub(prev)
				end = &e
			} else {
				// the last period is open-ended: everything from its start to the end of the horizon counts
				length = genesis.Add(cfg.Horizon).Sub(prev)
				if length < cfg.Horizon {
					length = cfg.Horizon
				}
			}
			kind := r.Intn(3)
			if kind == 0 && !cfg.AllowNone {
				kind = 1 + r.Intn(2)
			}
			if last && kind == 1 {
				kind = 2 * r.Intn(2) // linear needs an end: last is none or exponential
				if kind == 0 && !cfg.AllowNone {
					kind = 2
				}
			}
			var cfgMsg mintertypes.MinterConfigI
			switch kind {
			case 0:
				cfgMsg = &mintertypes.NoMinting{}
			case 1:
				amt := sdk.NewIntFromBigInt(r.BigLogUniform(cfg.MaxAmountExp))
				if r.Intn(12) == 0 {
					amt = sdk.ZeroInt()
				}
				cfgMsg = &mintertypes.LinearMinting{Amount: amt}
			default:
				minStep := time.Duration(int64(length) / cfg.MaxStepsHint)
				if minStep < time.Second {
					minStep = time.Second
				}
				maxStep := 2 * length
				if maxStep < minStep {
					maxStep = minStep
				}
				step := genDuration(r, minStep, maxStep)
				amt := sdk.NewIntFromBigInt(r.BigLogUniform(cfg.MaxAmountExp))
				cfgMsg = &mintertypes.ExponentialStepMinting{Amount: amt, AmountMultiplier: genMultiplier(r), StepDuration: step}
			}
			any, err := codectypes.NewAnyWithValue(cfgMsg)
			if err != nil {
				return mintertypes.Params{}, err
			}
			minters = append(minters, &mintertypes.Minter{SequenceId: uint32(i+1) + idBase, EndTime: end, Config: any})
			if end != nil {
				prev = *end
			}
		}
		// the list may be submitted in any order (validation sorts by sequence id)
		if r.P(0.35) {
			r.Shuffle(len(minters), func(i, j int) { minters[i], minters[j] = minters[j], minters[i] })
		}
		p := mintertypes.Params{MintDenom: denom, StartTime: start, Minters: minters}
		chk := mintertypes.Params{MintDenom: denom, StartTime: start, Minters: append([]*mintertypes.Minter(nil), minters...)}
		if err := chk.Validate(); err == nil { // Validate sorts its argument in place: validate a copy, keep the submitted order
			return p, nil
		}
	}
	return mintertypes.Params{}, fmt.Errorf("minter generator could not produce a valid schedule")
}

func MinterGenesisJSON(p mintertypes.Params, genesis time.Time) json.RawMessage {
	first := uint32(1)
	for i, m := range p.Minters {
		if i == 0 || m.SequenceId < first {
			first = m.SequenceId
		}
	}
	gs := mintertypes.GenesisState{Params: p, MinterState: mintertypes.MinterState{
		SequenceId: first, AmountMinted: sdk.ZeroInt(), RemainderToMint: sdk.ZeroDec(), RemainderFromPreviousMinter: sdk.ZeroDec(),
		LastMintBlockTime: genesis,
	}}
	return kernel.Enc().Marshaler.MustMarshalJSON(&gs)
}

// MintModelFrom builds the reference model from stored parameters (data only; no logic is shared).
func MintModelFrom(p mintertypes.Params) (*models.MintModel, error) {
	m := &models.MintModel{Start: p.StartTime}
	// periods by ascending sequence id
	ms := append([]*mintertypes.Minter(nil), p.Minters...)
	for i := 0; i < len(ms); i++ {
		for j := i + 1; j < len(ms); j++ {
			if ms[j].SequenceId < ms[i].SequenceId {
				ms[i], ms[j] = ms[j], ms[i]
			}
		}
	}
	for _, mt := range ms {
		mp := models.MintPeriod{}
		if mt.EndTime != nil {
			e := *mt.EndTime
			mp.End = &e
		}
		if mt.Config == nil {
			return nil, fmt.Errorf("nil config")
		}
		switch c := mt.Config.GetCachedValue().(type) {
		case *mintertypes.NoMinting:
			mp.Kind = models.MintNone
		case *mintertypes.LinearMinting:
			mp.Kind = models.MintLinear
			mp.Amount = c.Amount.BigInt()
		case *mintertypes.ExponentialStepMinting:
			mp.Kind = models.MintExp
			mp.Amount = c.Amount.BigInt()
			mp.StepNs = int64(c.StepDuration)
			mp.Mult = new(big.Rat).SetFrac(c.AmountMultiplier.BigInt(), bigE18)
		default:
			return nil, fmt.Errorf("unknown minter config %T", c)
		}
		m.Periods = append(m.Periods, mp)
	}
	return m, nil
}
