package checks

import (
	"fmt"
	"math/big"
	"sort"
	"time"

	vtypes "github.com/chain4energy/c4e-chain/x/cfevesting/types"
	sdk "github.com/cosmos/cosmos-sdk/types"
	authvesting "github.com/cosmos/cosmos-sdk/x/auth/vesting/types"
	abci "github.com/tendermint/tendermint/abci/types"

	"verifsim/kernel"
)

// C07 — split/move of vesting is exact and preserves the release schedule.
//
// Worlds with genesis continuous vesting accounts (original vesting 1..1e30, biased above 2e18 and to odd endings,
// 1-3 denominations, with/without delegated vesting); chains of split/move messages at block times biased to
// simple fractions of the vesting span (where banker's rounding ties live); after every block the family of each
// root account is compared with a never-split phantom copy of the root evaluated by the SDK's own schedule code.

func init() {
	Register(&Prop{
		ID:    "C07",
		Level: "exploration",
		Rule: "one run = 1-3 genesis continuous vesting accounts and 6-20 blocks of split / move / move-by-denoms / delegate messages (amounts biased to 1-3 units, locked-{0,1,2}, locked/k+-1; times biased to k/n of the vesting span); " +
			"per accepted message exact per-denomination accounting of sender and recipient, every well-formed request within the locked, undelegated amount must be accepted; after every block family sum vs phantom root. " +
			"non-trivial = at least one split/move accepted; distinct = hash of magnitude class of the original vesting, fraction-of-span classes hit, chain depth, delegation present, outcome",
		Quick:      Tier{Runs: 3000, BudgetSec: 50},
		Thorough:   Tier{Runs: 60000, BudgetSec: 780},
		RunSeed:    c07RunSeed,
		Replay:     c07Replay,
		Real:       vestReal,
		Stub:       vestStub,
		Assumes:    []string{"family-sum tolerance = 2 units per family member plus the SDK's own 18-digit schedule precision (original vesting * 2e-18 per member), which exceeds one unit only above 1e18", "fees are zero"},
		FaultKinds: []string{"F-clock (block times at exact fractions of the vesting span, at start/end, 1 s around)", "F-crash (every fifth run: death before / inside Commit, restart, re-execution)", "F-simulate + F-rollback (every fifth run: a quarter of the transactions are only handed to the Simulate service, or are a governance execution [parameter update, failing message] that x/gov drops as a whole; nothing of either may stick)"},
	})
}

type c07World struct {
	roots  []string
	actors []string
	fresh  int
	spans  map[string][2]int64 // actor -> start,end (unix)
	denoms []string
}

func c07BigAmount(r *kernel.Rng) sdk.Int {
	switch r.Intn(6) {
	case 0, 1:
		// the band where 18-digit quotient rounding starts to matter
		base := new(big.Int).Mul(big.NewInt(int64(r.Range(2, 9999))), new(big.Int).Exp(big.NewInt(10), big.NewInt(int64(r.Range(18, 26))), nil))
		off := big.NewInt(int64(r.Range(-3, 3)))
		return sdk.NewIntFromBigInt(base.Add(base, off))
	case 2:
		return sdk.NewInt(int64(r.Range(1, 5000)))
	}
	return sdk.NewIntFromBigInt(r.BigLogUniform(30))
}

func c07Build(seed uint64) (*kernel.Trace, *genSource, *c07World) {
	r := kernel.NewRng(seed)
	extra := []string{"aaa", "zzz"}[:r.Range(0, 2)]
	spec := baseSpec(r.Fork(1), 2, nil, 12)
	spec.GenesisTime = spec.GenesisTime.Truncate(time.Second)
	w := &c07World{spans: map[string][2]int64{}, denoms: append([]string{BondDenom}, extra...)}
	n := r.Range(1, 3)
	g := spec.GenesisTime.Unix()
	for i := 0; i < n; i++ {
		name := fmt.Sprintf("gvacc-%d", i)
		ov := sdk.NewCoins(sdk.NewCoin(BondDenom, c07BigAmount(r)))
		for _, d := range extra {
			if r.Bool() {
				ov = ov.Add(sdk.NewCoin(d, c07BigAmount(r)))
			}
		}
		var span int64
		switch r.Intn(4) {
		case 0:
			span = 120 * int64(r.Range(1, 6))
		case 1:
			span = 120 * 60 * int64(r.Range(1, 24))
		case 2:
			span = int64(r.Range(100, 100000))
		default:
			span = 1000 * 3600
		}
		start := g + int64(r.Range(-2, 3))*span/4
		end := start + span
		bal := ov
		if r.Bool() {
			bal = bal.Add(sdk.NewCoin(BondDenom, sdk.NewInt(int64(r.Range(1, 1000000)))))
		}
		spec.VestingAccounts = append(spec.VestingAccounts, kernel.VAccSpec{Actor: name, OriginalVesting: ov.String(), Start: start, End: end})
		spec.Balances = append(spec.Balances, kernel.BalSpec{Actor: name, Coins: bal.String()})
		w.roots = append(w.roots, name)
		w.actors = append(w.actors, name)
		w.spans[name] = [2]int64{start, end}
	}
	spec.Distributor = simpleDistributorJSON(kernel.ActorBech("dist-sink"))
	tr := &kernel.Trace{Profile: "C07", Seed: seed, Spec: *spec}
	rr := r.Fork(2)
	src := &genSource{rng: rr, nBlocks: rr.Range(6, 20), MaxTxs: 2, PTx: 0.8}
	if seed%5 == 2 {
		src.CrashP = 0.15
	}
	if seed%5 == 3 {
		simOverlay(src, spec)
	}
	src.Cadence = func(run *kernel.Run, rng *kernel.Rng) int64 {
		now := run.Chain.Now.Unix()
		// aim at the next k/n of some member's span after now
		if len(w.actors) > 0 && rng.P(0.85) {
			a := w.actors[rng.Intn(len(w.actors))]
			sp := w.spans[a]
			span := sp[1] - sp[0]
			var cands []int64
			for _, nn := range []int64{2, 3, 4, 5, 8, 10} {
				for k := int64(0); k <= nn; k++ {
					t := sp[0] + span*k/nn
					if t > now {
						cands = append(cands, t)
						break
					}
				}
			}
			if len(cands) > 0 {
				t := cands[rng.Intn(len(cands))]
				if rng.Intn(8) == 0 {
					t += int64(rng.Range(-1, 1))
				}
				if t > now {
					return (t - now) * int64(time.Second)
				}
			}
		}
		return int64(time.Duration(rng.Range(1, 30)) * time.Second)
	}
	src.TxGens = []TxGen{w.genSplit, w.genSplit, w.genSplit, w.genMove, w.genDelegate}
	return tr, src, w
}

func (w *c07World) pick(r *kernel.Run, rng *kernel.Rng) (string, *authvesting.ContinuousVestingAccount) {
	for tries := 0; tries < 5; tries++ {
		a := w.actors[rng.Intn(len(w.actors))]
		acc := r.Chain.App.AccountKeeper.GetAccount(r.Chain.Ctx(), kernel.ActorAddr(a))
		if cva, ok := acc.(*authvesting.ContinuousVestingAccount); ok {
			return a, cva
		}
	}
	return "", nil
}

func c07Amount(rng *kernel.Rng, locked sdk.Int) sdk.Int {
	if !locked.IsPositive() {
		return sdk.OneInt()
	}
	var v sdk.Int
	sel := rng.Intn(10)
	if locked.GT(sdk.NewIntFromUint64(2e18)) && rng.P(0.35) {
		sel = rng.Intn(2)
	}
	switch sel {
	case 0:
		v = sdk.NewInt(1)
	case 1:
		v = sdk.NewInt(int64(rng.Range(2, 3)))
	case 2:
		v = locked
	case 3:
		v = locked.SubRaw(int64(rng.Range(1, 2)))
	case 4, 5:
		k := int64(rng.Range(2, 9))
		v = locked.QuoRaw(k).AddRaw(int64(rng.Range(-1, 1)))
	case 6:
		v = locked.AddRaw(1) // too much: must be rejected
	default:
		v = sdk.NewIntFromBigInt(rng.BigBelow(locked.BigInt())).AddRaw(1)
	}
	if !v.IsPositive() {
		v = sdk.OneInt()
	}
	return v
}

func (w *c07World) newRecipient(from string, cva *authvesting.ContinuousVestingAccount, now int64) (string, string) {
	w.fresh++
	name := kernel.FreshName(w.fresh)
	w.actors = append(w.actors, name)
	start := cva.StartTime
	if now > start {
		start = now
	}
	w.spans[name] = [2]int64{start, cva.EndTime}
	return name, kernel.ActorBech(name)
}

func (w *c07World) genSplit(r *kernel.Run, rng *kernel.Rng) *kernel.Tx {
	from, cva := w.pick(r, rng)
	if from == "" {
		return nil
	}
	locked, _ := r.Chain.SafeLockedCoins(kernel.ActorAddr(from))
	coins := sdk.NewCoins()
	for _, c := range locked {
		if len(locked) == 1 || rng.P(0.7) {
			coins = coins.Add(sdk.NewCoin(c.Denom, c07Amount(rng, c.Amount)))
		}
	}
	if coins.IsZero() {
		return nil
	}
	_, to := w.newRecipient(from, cva, r.Chain.Now.Unix())
	return msgTx(from, &vtypes.MsgSplitVesting{FromAddress: kernel.ActorBech(from), ToAddress: to, Amount: coins}, "")
}

func (w *c07World) genMove(r *kernel.Run, rng *kernel.Rng) *kernel.Tx {
	from, cva := w.pick(r, rng)
	if from == "" {
		return nil
	}
	_, to := w.newRecipient(from, cva, r.Chain.Now.Unix())
	if rng.Bool() {
		return msgTx(from, &vtypes.MsgMoveAvailableVesting{FromAddress: kernel.ActorBech(from), ToAddress: to}, "")
	}
	var ds []string
	for _, d := range w.denoms {
		if rng.P(0.6) {
			ds = append(ds, d)
		}
	}
	if len(ds) == 0 {
		ds = []string{BondDenom}
	}
	return msgTx(from, &vtypes.MsgMoveAvailableVestingByDenoms{FromAddress: kernel.ActorBech(from), ToAddress: to, Denoms: ds}, "")
}

func (w *c07World) genDelegate(r *kernel.Run, rng *kernel.Rng) *kernel.Tx {
	vw := &vestingWorld{VestActors: w.actors}
	return vw.genDelegate(r, rng)
}

// ---------------------------------------------------------------------------------------------

type c07Monitor struct {
	kernel.NopMonitor
	evals   int64
	parent  map[string]string                                // address -> root address
	roots   map[string]*authvesting.ContinuousVestingAccount // phantom, never split
	members map[string][]string
	pre     struct {
		locked, spendable, balance map[string]sdk.Coins
		accs                       map[string][]byte
	}
}

func (m *c07Monitor) Init(r *kernel.Run) {
	m.parent = map[string]string{}
	m.roots = map[string]*authvesting.ContinuousVestingAccount{}
	m.members = map[string][]string{}
	for _, va := range r.Spec.VestingAccounts {
		addr := kernel.ActorBech(va.Actor)
		acc := r.Chain.App.AccountKeeper.GetAccount(r.Chain.Ctx(), kernel.ActorAddr(va.Actor))
		if cva, ok := acc.(*authvesting.ContinuousVestingAccount); ok {
			// deep copy through the codec
			bz, _ := r.Chain.App.AccountKeeper.MarshalAccount(cva)
			cp, _ := r.Chain.App.AccountKeeper.UnmarshalAccount(bz)
			ph := cp.(*authvesting.ContinuousVestingAccount)
			ph.DelegatedVesting, ph.DelegatedFree = sdk.NewCoins(), sdk.NewCoins()
			m.roots[addr] = ph
			m.parent[addr] = addr
			m.members[addr] = []string{addr}
		}
	}
}

func (m *c07Monitor) snap(r *kernel.Run, addrs ...string) {
	m.pre.locked, m.pre.spendable, m.pre.balance = map[string]sdk.Coins{}, map[string]sdk.Coins{}, map[string]sdk.Coins{}
	ctx := r.Chain.Ctx()
	for _, a := range addrs {
		ad, err := sdk.AccAddressFromBech32(a)
		if err != nil {
			continue
		}
		m.pre.locked[a] = r.Chain.App.BankKeeper.LockedCoins(ctx, ad)
		m.pre.spendable[a] = r.Chain.App.BankKeeper.SpendableCoins(ctx, ad)
		m.pre.balance[a] = r.Chain.App.BankKeeper.GetAllBalances(ctx, ad)
	}
	m.pre.accs = r.Chain.AccountsRaw()
}

func (m *c07Monitor) BeforeTx(r *kernel.Run, tx *kernel.Tx, msgs []sdk.Msg) {
	if len(msgs) != 1 {
		return
	}
	if from := splitSender(msgs[0]); from != "" {
		m.snap(r, from, splitRecipient(msgs[0]))
	}
}

func (m *c07Monitor) AfterTx(r *kernel.Run, tx *kernel.Tx, msgs []sdk.Msg, res *kernel.TxResult) {
	if len(msgs) != 1 {
		return
	}
	msg := msgs[0]
	from, to := splitSender(msg), splitRecipient(msg)
	if from == "" {
		return
	}
	m.evals++
	ctx := r.Chain.Ctx()
	fromAddr, _ := sdk.AccAddressFromBech32(from)
	toAddr, errTo := sdk.AccAddressFromBech32(to)
	now := r.Chain.Now
	lockedBefore := m.pre.locked[from]
	// what was requested
	var want sdk.Coins
	isMove := false
	switch t := msg.(type) {
	case *vtypes.MsgSplitVesting:
		want = sdk.NewCoins(t.Amount...)
	case *vtypes.MsgMoveAvailableVesting:
		want = lockedBefore
		isMove = true
	case *vtypes.MsgMoveAvailableVestingByDenoms:
		want = sdk.NewCoins()
		for _, d := range t.Denoms {
			if a := lockedBefore.AmountOf(d); a.IsPositive() {
				want = want.Add(sdk.NewCoin(d, a))
			}
		}
		isMove = true
	}
	_, senderIsCVA := r.Chain.App.AccountKeeper.GetAccount(ctx, fromAddr).(*authvesting.ContinuousVestingAccount)
	_, toExisted := m.pre.accs[to]
	if !res.OK {
		// any amount up to the locked, undelegated coins can be split into a fresh address
		wellFormed := errTo == nil && !toExisted && senderIsCVA && !want.IsZero() && want.IsAllLTE(lockedBefore) && !r.Chain.App.BankKeeper.BlockedAddr(toAddr) && res.BuildErr == "" && !res.Simulated
		if sp, ok := msg.(*vtypes.MsgSplitVesting); ok && sdk.Coins(sp.Amount).Validate() != nil {
			wellFormed = false
		}
		if wellFormed && (res.Codespace != "sdk" || (res.Code != 32 && res.Code != 4 && res.Code != 11 && res.Code != 13)) { // not an ante/sequence/gas failure
			r.Violate("C07", "split-accepts-valid", "valid-split-rejected", "%s of %s (locked %s) into a fresh address rejected: %s", sdk.MsgTypeURL(msg), want, lockedBefore, firstLineOf(res.Log))
		}
		return
	}
	r.Stats.Inc("probe.split_or_move_accepted")
	lockedAfter := r.Chain.App.BankKeeper.LockedCoins(ctx, fromAddr)
	spendAfter := r.Chain.App.BankKeeper.SpendableCoins(ctx, fromAddr)
	magn := "small"
	for _, c := range want {
		got := lockedBefore.AmountOf(c.Denom).Sub(lockedAfter.AmountOf(c.Denom))
		if !got.Equal(c.Amount) {
			cls := "under"
			if got.GT(c.Amount) {
				cls = "over"
			}
			r.Violate("C07", "split-exact", "sender-locked-"+cls+"-released", "%s at %d: requested %s%s, sender's locked coins fell by %s (locked before %s)", sdk.MsgTypeURL(msg), now.Unix(), c.Amount, c.Denom, got, lockedBefore.AmountOf(c.Denom))
		}
		if lockedBefore.AmountOf(c.Denom).GT(sdk.NewIntFromUint64(2e18)) {
			magn = "above-2e18"
		}
	}
	r.Stats.Inc("probe.split_magnitude_" + magn)
	for _, c := range lockedBefore {
		if want.AmountOf(c.Denom).IsZero() && !lockedAfter.AmountOf(c.Denom).Equal(c.Amount) {
			r.Violate("C07", "split-exact", "other-denom-changed", "%s changed locked %s from %s to %s although it was not requested", sdk.MsgTypeURL(msg), c.Denom, c.Amount, lockedAfter.AmountOf(c.Denom))
		}
	}
	if isMove {
		for _, c := range want {
			if !lockedAfter.AmountOf(c.Denom).IsZero() {
				r.Violate("C07", "split-exact", "move-left-locked", "move left %s%s locked on the sender", lockedAfter.AmountOf(c.Denom), c.Denom)
			}
		}
	}
	if !coinsEq(spendAfter, m.pre.spendable[from]) {
		r.Violate("C07", "split-exact", "sender-spendable-changed", "%s changed the sender's spendable balance from %s to %s", sdk.MsgTypeURL(msg), m.pre.spendable[from], spendAfter)
	}
	// recipient
	if toExisted {
		r.Violate("C07", "split-recipient", "recipient-existed", "split into existing account %s accepted", to)
		return
	}
	racc := r.Chain.App.AccountKeeper.GetAccount(ctx, toAddr)
	rcva, ok := racc.(*authvesting.ContinuousVestingAccount)
	if !ok {
		r.Violate("C07", "split-recipient", "recipient-not-continuous-vesting", "recipient is %T", racc)
		return
	}
	sAcc, _ := r.Chain.App.AccountKeeper.UnmarshalAccount(m.pre.accs[from])
	sCva := sAcc.(*authvesting.ContinuousVestingAccount)
	wantStart := sCva.StartTime
	if now.Unix() > wantStart {
		wantStart = now.Unix()
	}
	rLocked := r.Chain.App.BankKeeper.LockedCoins(ctx, toAddr)
	if !coinsEq(rLocked, want) || !coinsEq(rcva.OriginalVesting, want) || rcva.EndTime != sCva.EndTime || rcva.StartTime != wantStart {
		r.Violate("C07", "split-recipient", "recipient-schedule", "recipient {locked %s, ov %s, %d..%d}, expected {%s, %d..%d}", rLocked, rcva.OriginalVesting, rcva.StartTime, rcva.EndTime, want, wantStart, sCva.EndTime)
	}
	if !sCva.DelegatedVesting.IsZero() {
		r.Stats.Inc("probe.split_with_delegated_vesting")
	}
	// family bookkeeping
	if root, ok := m.parent[from]; ok {
		m.parent[to] = root
		m.members[root] = append(m.members[root], to)
		if from != root {
			r.Stats.Inc("probe.split_chain_depth_ge_2")
		}
	}
	// fraction-of-span class
	span := sCva.EndTime - sCva.StartTime
	if span > 0 && now.Unix() > sCva.StartTime && now.Unix() < sCva.EndTime {
		el := now.Unix() - sCva.StartTime
		for _, nn := range []int64{2, 3, 4, 5, 8, 10} {
			if (el*nn)%span == 0 {
				r.Stats.Inc(fmt.Sprintf("probe.split_at_fraction_of_span_1_%d", nn))
				break
			}
		}
	} else if now.Unix() <= sCva.StartTime {
		r.Stats.Inc("probe.split_before_vesting_start")
	}
}

func (m *c07Monitor) AfterBegin(r *kernel.Run, _ abci.ResponseBeginBlock) {
	if r.Chain.Halted != nil {
		return
	}
	// at every block time: the family together has vesting what the root alone would have had
	ctx := r.Chain.Ctx()
	now := r.Chain.Now
	roots := make([]string, 0, len(m.roots))
	for k := range m.roots {
		roots = append(roots, k)
	}
	sort.Strings(roots)
	for _, root := range roots {
		if len(m.members[root]) < 2 {
			continue
		}
		ph := m.roots[root]
		want := ph.GetVestingCoins(now)
		sum := sdk.NewCoins()
		for _, a := range m.members[root] {
			ad, _ := sdk.AccAddressFromBech32(a)
			if cva, ok := r.Chain.App.AccountKeeper.GetAccount(ctx, ad).(*authvesting.ContinuousVestingAccount); ok {
				sum = sum.Add(cva.GetVestingCoins(now)...)
			}
		}
		m.evals++
		n := int64(len(m.members[root]))
		for _, c := range ph.OriginalVesting {
			// 2 units per member + the SDK's own 18-digit schedule precision
			prec := new(big.Int).Mul(c.Amount.BigInt(), big.NewInt(2*n))
			prec.Quo(prec, bigE18)
			tol := sdk.NewInt(2 * n).Add(sdk.NewIntFromBigInt(prec))
			d := sum.AmountOf(c.Denom).Sub(want.AmountOf(c.Denom)).Abs()
			if d.GT(tol) {
				r.Violate("C07", "schedule-preserved", "family-sum-drift", "at %d the %d accounts split from %s together have %s%s still vesting, the unsplit account would have %s (tolerance %s)", now.Unix(), n, root, sum.AmountOf(c.Denom), c.Denom, want.AmountOf(c.Denom), tol)
			}
		}
		r.Stats.Inc("probe.family_sum_checked")
	}
}

func c07RunSeed(seed uint64, tier string) *Outcome {
	tr, src, _ := c07Build(seed)
	return c07Exec(tr, src)
}

func c07Replay(tr *kernel.Trace) *Outcome { return c07Exec(tr, nil) }

func c07Exec(tr *kernel.Trace, src kernel.Source) *Outcome {
	mon := &c07Monitor{}
	_, o := execTrace(tr, src, []kernel.Monitor{mon, haltMonitor{}}, false)
	o.Evals = mon.evals
	o.Nontrivial = o.Stats.Counters["probe.split_or_move_accepted"] > 0
	o.Fingerprint = fingerprint(statsClasses(&o.Stats, "probe."), len(o.Violations) > 0)
	if o.Trace != nil {
		s := map[string]interface{}{"seed": o.Trace.Seed, "vesting_accounts": o.Trace.Spec.VestingAccounts, "blocks": len(o.Trace.Blocks), "accepted": o.Stats.Counters["probe.split_or_move_accepted"]}
		for _, b := range o.Trace.Blocks {
			if len(b.Txs) > 0 {
				s["first_tx"] = b.Txs[0]
				break
			}
		}
		o.Sample = s
	}
	return o
}
