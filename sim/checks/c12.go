package checks

import (
	"bytes"
	"encoding/base64"
	"encoding/json"
	"fmt"
	"sort"
	"strings"

	"github.com/chain4energy/c4e-chain/x/cfedistributor"
	disttypes "github.com/chain4energy/c4e-chain/x/cfedistributor/types"
	"github.com/chain4energy/c4e-chain/x/cfeminter"
	mintertypes "github.com/chain4energy/c4e-chain/x/cfeminter/types"
	"github.com/chain4energy/c4e-chain/x/cfesignature"
	sigtypes "github.com/chain4energy/c4e-chain/x/cfesignature/types"
	"github.com/chain4energy/c4e-chain/x/cfevesting"
	vtypes "github.com/chain4energy/c4e-chain/x/cfevesting/types"
	sdk "github.com/cosmos/cosmos-sdk/types"
	abci "github.com/tendermint/tendermint/abci/types"

	"verifsim/kernel"
)

// C12 — genesis export/import preserves state and subsequent behaviour.
//
// At an export point of an everything-profile history the state is exported, validated, imported into a fresh app
// (new disk), re-exported and compared; then the original and the restored chain are driven by the same further
// blocks and transactions and compared block by block (custom events, tx results, balances, supply, the custom
// modules' exported state, a battery of custom queries). App hashes are not compared.

type c12Extra struct {
	ExportAfter int `json:"export_after"` // number of blocks executed before the export
}

func init() {
	Register(&Prop{
		ID:    "C12",
		Level: "fault_enumeration",
		Rule: "seeded part: one run = an everything-profile history (all four custom modules incl. signature registry traffic and governance updates) with an export/import at a random height, then 4-10 further blocks on both chains; " +
			"enumeration part: for a set of short base histories the export/import is placed after every height in turn. non-trivial = the restored chain executed blocks with mints/distributions or custom messages after the import; " +
			"distinct = hash of what the exported state contained (pools, traces, distributor leftovers incl. burn, minter history, signature records, open proposals), probes and outcome",
		Quick:      Tier{Runs: 600, BudgetSec: 55},
		Thorough:   Tier{Runs: 15000, BudgetSec: 700},
		RunSeed:    c12RunSeed,
		Replay:     c12Replay,
		Enumerate:  c12Enumerate,
		Real:       append([]string{"app.ExportAppStateAndValidators, ModuleBasics.ValidateGenesis, InitChain of a fresh app on a new disk"}, distReal...),
		Stub:       distStub,
		Assumes:    []string{"re-export equality is asserted for cfevesting, cfeminter, cfedistributor, cfesignature, bank and auth; other SDK sections are compared as information only", "app hashes are not compared (IAVL shape depends on insertion history)"},
		FaultKinds: []string{"F-export at every height of short histories / at a random height", "F-gov", "F-clock", "F-order"},
	})
}

var c12Opts = everythingOpts{MaxAmtExp: 30, Gov: true, Sig: true, Blocks: [2]int{6, 22}}

type blockObs struct {
	customBegin []string
	txCodes     []string
	customEnd   []string
}

type obsMonitor struct {
	kernel.NopMonitor
	cur  blockObs
	all  []blockObs
	work bool
}

func customEvents(evs []abci.Event) []string {
	var out []string
	for _, e := range evs {
		if !strings.HasPrefix(e.Type, "chain4energy.") {
			continue
		}
		var kv []string
		for _, a := range e.Attributes {
			kv = append(kv, string(a.Key)+"="+string(a.Value))
		}
		sort.Strings(kv)
		out = append(out, e.Type+"{"+strings.Join(kv, ",")+"}")
	}
	return out
}

func (m *obsMonitor) BeforeBlock(*kernel.Run, *kernel.Block) { m.cur = blockObs{} }
func (m *obsMonitor) AfterBegin(r *kernel.Run, resp abci.ResponseBeginBlock) {
	m.cur.customBegin = customEvents(resp.Events)
	reportHalt(r)
}
func (m *obsMonitor) AfterTx(r *kernel.Run, tx *kernel.Tx, msgs []sdk.Msg, res *kernel.TxResult) {
	m.cur.txCodes = append(m.cur.txCodes, fmt.Sprintf("%s/%d/%v|%s", res.Codespace, res.Code, res.OK, strings.Join(customEvents(res.Events), ";")))
	if res.OK {
		m.work = true
	}
}
func (m *obsMonitor) AfterEnd(r *kernel.Run, resp abci.ResponseEndBlock) {
	m.cur.customEnd = customEvents(resp.Events)
	reportHalt(r)
}
func (m *obsMonitor) AfterCommit(r *kernel.Run) { m.all = append(m.all, m.cur) }

func canonSection(appState json.RawMessage, section string) string {
	var gs map[string]json.RawMessage
	if err := json.Unmarshal(appState, &gs); err != nil {
		return "ERR:" + err.Error()
	}
	var v interface{}
	if err := json.Unmarshal(gs[section], &v); err != nil {
		return "ERR:" + err.Error()
	}
	out, _ := json.Marshal(v) // maps are marshalled with sorted keys
	return string(out)
}

func sectionNames(appState json.RawMessage) []string {
	var gs map[string]json.RawMessage
	_ = json.Unmarshal(appState, &gs)
	ks := make([]string, 0, len(gs))
	for k := range gs {
		ks = append(ks, k)
	}
	sort.Strings(ks)
	return ks
}

var c12Asserted = map[string]bool{"cfevesting": true, "cfeminter": true, "cfedistributor": true, "cfesignature": true, "bank": true, "auth": true}

func exportOf(c *kernel.Chain) (json.RawMessage, int64, *kernel.PanicInfo, error) {
	var appState json.RawMessage
	var height int64
	var err error
	pi := kernel.Catch("ExportAppStateAndValidators", func() {
		exp, e := c.App.ExportAppStateAndValidators(false, nil)
		if e != nil {
			err = e
			return
		}
		appState, height = exp.AppState, exp.Height
	})
	return appState, height, pi, err
}

func firstDiff(a, b string) string {
	n := len(a)
	if len(b) < n {
		n = len(b)
	}
	i := 0
	for i < n && a[i] == b[i] {
		i++
	}
	lo := i - 60
	if lo < 0 {
		lo = 0
	}
	ha, hb := i+80, i+80
	if ha > len(a) {
		ha = len(a)
	}
	if hb > len(b) {
		hb = len(b)
	}
	return fmt.Sprintf("...%s  <>  ...%s", a[lo:ha], b[lo:hb])
}

// queryBattery: a fixed set of custom-module queries answered by both chains.
func queryBattery(spec *kernel.WorldSpec) []kernel.Query {
	var qs []kernel.Query
	add := func(path string, req interface{ Marshal() ([]byte, error) }) {
		var bz []byte
		if req != nil {
			bz, _ = req.Marshal()
		}
		qs = append(qs, kernel.Query{Path: path, Data: base64.StdEncoding.EncodeToString(bz)})
	}
	add("/chain4energy.c4echain.cfeminter.Query/Params", &mintertypes.QueryParamsRequest{})
	add("/chain4energy.c4echain.cfeminter.Query/State", &mintertypes.QueryStateRequest{})
	add("/chain4energy.c4echain.cfeminter.Query/Inflation", &mintertypes.QueryInflationRequest{})
	add("/chain4energy.c4echain.cfedistributor.Query/Params", &disttypes.QueryParamsRequest{})
	add("/chain4energy.c4echain.cfedistributor.Query/States", &disttypes.QueryStatesRequest{})
	add("/chain4energy.c4echain.cfevesting.Query/Params", &vtypes.QueryParamsRequest{})
	add("/chain4energy.c4echain.cfevesting.Query/VestingType", &vtypes.QueryVestingTypeRequest{})
	add("/chain4energy.c4echain.cfevesting.Query/VestingsSummary", &vtypes.QueryVestingsSummaryRequest{})
	add("/chain4energy.c4echain.cfevesting.Query/GenesisVestingsSummary", &vtypes.QueryGenesisVestingsSummaryRequest{})
	for _, c := range spec.Clients {
		add("/chain4energy.c4echain.cfevesting.Query/VestingPools", &vtypes.QueryVestingPoolsRequest{Owner: kernel.ActorBech(c)})
	}
	add("/chain4energy.c4echain.cfesignature.Query/Params", &sigtypes.QueryParamsRequest{})
	for i := 1; i <= 4; i++ {
		ref := fmt.Sprintf("%064x", uint64(i))
		add("/chain4energy.c4echain.cfesignature.Query/GetReferencePayloadLink", &sigtypes.QueryGetReferencePayloadLinkRequest{ReferenceId: ref})
		for _, c := range spec.Clients {
			add("/chain4energy.c4echain.cfesignature.Query/VerifySignature", &sigtypes.QueryVerifySignatureRequest{ReferenceId: ref, TargetAccAddress: kernel.ActorBech(c)})
		}
	}
	return qs
}

func c12RunSeed(seed uint64, tier string) *Outcome {
	opts := c12Opts
	opts.Sig = seed%2 == 0
	tr, src, _, err := buildEverything(seed, "C12", opts)
	if err != nil {
		return &Outcome{InfraErr: err}
	}
	r := kernel.NewRng(seed ^ 0xC12)
	k := r.Range(1, src.nBlocks-1)
	src.nBlocks = k + r.Range(4, 10)
	tr.Extra = mustJSON(c12Extra{ExportAfter: k})
	return c12Finish(c12Exec(tr, src))
}

func c12Replay(tr *kernel.Trace) *Outcome { return c12Finish(c12Exec(tr, nil)) }

func c12Exec(tr *kernel.Trace, src kernel.Source) *Outcome {
	o := &Outcome{Trace: tr}
	var extra c12Extra
	_ = json.Unmarshal(tr.Extra, &extra)
	violate := func(check, sig, format string, args ...interface{}) {
		o.Violations = append(o.Violations, &kernel.Violation{Property: "C12", Check: check, Signature: sig, Message: fmt.Sprintf(format, args...), Block: extra.ExportAfter, TxIndex: -1})
	}
	spec := tr.Spec
	monA := &obsMonitor{}
	runA := &kernel.Run{Spec: &spec, Monitors: []kernel.Monitor{monA}, StopOnViolation: true}
	if pi := runA.Start(); pi != nil || runA.InfraErr != nil {
		if runA.InfraErr != nil {
			o.InfraErr = runA.InfraErr
		} else {
			o.InfraErr = errGenesis(pi)
		}
		return o
	}
	recorded := tr.Blocks
	gen := src != nil
	nextBlock := func(i int) *kernel.Block {
		if gen {
			return src.NextBlock(runA)
		}
		if i < len(recorded) {
			return &recorded[i]
		}
		return nil
	}
	finish := func() *Outcome {
		if gen {
			tr.Blocks = runA.Recorded
		}
		o.Stats.Merge(&runA.Stats)
		o.Violations = append(o.Violations, runA.Violations...)
		if runA.InfraErr != nil {
			o.InfraErr = runA.InfraErr
		}
		o.Evals += int64(len(tr.Blocks))
		return o
	}
	i := 0
	for ; i < extra.ExportAfter; i++ {
		b := nextBlock(i)
		if b == nil || runA.Failed() || runA.Chain.Halted != nil {
			return finish()
		}
		if gen {
			runA.ExecBlock(b, src)
		} else {
			runA.ExecBlock(b, nil)
		}
		runA.BlockIdx++
	}
	if runA.Failed() || runA.Chain.Halted != nil {
		return finish()
	}
	// ---- export, validate, import, re-export
	e1, height, pi, err := exportOf(runA.Chain)
	o.Stats.Inc("fault.export_import")
	if pi != nil || err != nil {
		violate("export", "export-failed", "export at height %d failed: %v %v", runA.Chain.Height, err, pi)
		return finish()
	}
	describeExport(o, e1)
	if err := kernel.ValidateGenesisJSON(e1); err != nil {
		violate("export-valid", "exported-genesis-invalid:"+kernel.GenesisErrorClass(err), "genesis exported at height %d fails validation: %v", runA.Chain.Height, err)
		// the operator could still try to start from it: continue
	}
	specB := spec
	monB := &obsMonitor{}
	runB := &kernel.Run{Spec: &specB, Monitors: []kernel.Monitor{monB}, StopOnViolation: true}
	runB.Spec.GenesisTime = runA.Chain.Now
	if pi := runB.StartFromState(e1, runA.Chain.Vals, height); pi != nil {
		violate("import", "import-panic:"+pi.Site(), "a fresh chain cannot be initialised from the genesis exported at height %d: %s", runA.Chain.Height, firstLineOf(pi.Value))
		return finish()
	}
	e2, _, pi, err := exportOf(runB.Chain)
	if pi != nil || err != nil {
		violate("re-export", "re-export-failed", "re-export failed: %v %v", err, pi)
		return finish()
	}
	for _, sec := range sectionNames(e1) {
		a, b := canonSection(e1, sec), canonSection(e2, sec)
		o.Evals++
		if a != b {
			if c12Asserted[sec] {
				violate("re-export", "re-export-differs:"+sec, "section %s of the re-exported genesis differs: %s", sec, firstDiff(a, b))
			} else {
				o.Stats.Inc("probe.info_sdk_section_differs_" + sec)
			}
		}
	}
	if len(o.Violations) > 0 && !onlyGenesisInvalid(o.Violations) {
		return finish()
	}
	// no custom-module data may be lost: raw store contents of the four custom modules survive the round trip
	for _, sk := range []string{sigtypes.StoreKey} {
		da, db := runA.Chain.StoreDump(sk), runB.Chain.StoreDump(sk)
		lostSig, lostLink := 0, 0
		for k := range da {
			if _, ok := db[k]; !ok {
				if strings.HasPrefix(k, sigtypes.SignatureKey) {
					lostSig++
				} else if strings.HasPrefix(k, sigtypes.PayloadLinkKey) {
					lostLink++
				}
			}
		}
		o.Evals++
		if lostSig+lostLink > 0 {
			violate("data-lost", "signature-registry-not-exported", "the restored chain lost %d stored signatures and %d payload links of the signature registry", lostSig, lostLink)
			return finish()
		}
	}
	// ---- identical behaviour from then on
	battery := queryBattery(&spec)
	compare := func(where string) bool {
		balA, balB := runA.Chain.AllBalances(), runB.Chain.AllBalances()
		o.Evals++
		if d := balA.Diff(balB); len(d) > 0 {
			for addr, dd := range d {
				violate("behaviour", "balances-differ", "%s: balance of %s differs between original and restored chain: %v", where, addr, dd)
				return false
			}
		}
		if !coinsEq(runA.Chain.Supply(), runB.Chain.Supply()) {
			violate("behaviour", "supply-differs", "%s: supply %s on the original, %s on the restored chain", where, runA.Chain.Supply(), runB.Chain.Supply())
			return false
		}
		xa, xb := customExport(runA.Chain), customExport(runB.Chain)
		for _, sec := range []string{"cfevesting", "cfeminter", "cfedistributor", "cfesignature"} {
			o.Evals++
			if a, b := xa[sec], xb[sec]; a != b {
				violate("behaviour", "module-state-differs:"+sec, "%s: exported %s state differs between original and restored chain: %s", where, sec, firstDiff(a, b))
				return false
			}
		}
		for _, q := range battery {
			data, _ := base64.StdEncoding.DecodeString(q.Data)
			ra, _ := runA.Chain.Query(q.Path, data)
			rb, _ := runB.Chain.Query(q.Path, data)
			o.Evals++
			if ra.Code != rb.Code || !bytes.Equal(ra.Value, rb.Value) {
				short := q.Path[strings.Index(q.Path, "c4echain.")+9:]
				violate("behaviour", "query-differs:"+short, "%s: query %s answers differ (code %d vs %d, %q vs %q)", where, short, ra.Code, rb.Code, clip(ra.Log+string(ra.Value), 80), clip(rb.Log+string(rb.Value), 80))
				return false
			}
		}
		return true
	}
	if !compare("right after the import") {
		return finish()
	}
	for ; ; i++ {
		b := nextBlock(i)
		if b == nil || runA.Failed() || runB.Failed() || runA.Chain.Halted != nil {
			break
		}
		if gen {
			runA.ExecBlock(b, src)
		} else {
			runA.ExecBlock(b, nil)
		}
		runA.BlockIdx++
		rec := runA.Recorded[len(runA.Recorded)-1]
		runB.ExecBlock(&rec, nil)
		runB.BlockIdx++
		if len(monA.all) == 0 || len(monB.all) == 0 {
			continue
		}
		oa, ob := monA.all[len(monA.all)-1], monB.all[len(monB.all)-1]
		o.Evals += 3
		if strings.Join(oa.customBegin, "\n") != strings.Join(ob.customBegin, "\n") {
			violate("behaviour", "begin-events-differ", "block %d after the import: custom BeginBlock events differ: %s", i, firstDiff(strings.Join(oa.customBegin, "\n"), strings.Join(ob.customBegin, "\n")))
			break
		}
		if strings.Join(oa.txCodes, "\n") != strings.Join(ob.txCodes, "\n") {
			violate("behaviour", "tx-results-differ", "block %d after the import: transaction results differ: %s", i, firstDiff(strings.Join(oa.txCodes, "\n"), strings.Join(ob.txCodes, "\n")))
			break
		}
		if strings.Join(oa.customEnd, "\n") != strings.Join(ob.customEnd, "\n") {
			violate("behaviour", "end-events-differ", "block %d after the import: custom EndBlock events differ", i)
			break
		}
		if len(oa.customBegin) > 1 || len(oa.txCodes) > 0 {
			o.Stats.Inc("probe.restored_chain_block_with_activity")
		}
		if !compare(fmt.Sprintf("block %d after the import", i-extra.ExportAfter+1)) {
			break
		}
	}
	o.Violations = append(o.Violations, runB.Violations...)
	return finish()
}

func onlyGenesisInvalid(vs []*kernel.Violation) bool {
	for _, v := range vs {
		if !strings.HasPrefix(v.Signature, "exported-genesis-invalid") {
			return false
		}
	}
	return true
}

// describeExport records what the exported state contained (coverage, not an oracle).
func describeExport(o *Outcome, e json.RawMessage) {
	var gs map[string]json.RawMessage
	if json.Unmarshal(e, &gs) != nil {
		return
	}
	has := func(sec, needle string) bool { return strings.Contains(string(gs[sec]), needle) }
	if has("cfevesting", `"vesting_pools"`) && has("cfevesting", `"name"`) {
		o.Stats.Inc("probe.export_with_pools")
	}
	if has("cfevesting", `"from_genesis`) || has("cfevesting", `"address"`) {
		o.Stats.Inc("probe.export_with_traces")
	}
	if has("cfedistributor", `"burn": true`) || has("cfedistributor", `"burn":true`) {
		o.Stats.Inc("probe.export_with_burn_state")
	}
	if has("cfedistributor", `"remains"`) {
		o.Stats.Inc("probe.export_with_distributor_leftovers")
	}
	if has("cfeminter", `"state_history": [`) && !has("cfeminter", `"state_history": []`) {
		o.Stats.Inc("probe.export_with_minter_history")
	}
	if has("gov", `"PROPOSAL_STATUS_VOTING_PERIOD"`) {
		o.Stats.Inc("probe.export_with_open_proposal")
	}
}

func c12Finish(o *Outcome) *Outcome {
	o.Nontrivial = o.Stats.Counters["probe.restored_chain_block_with_activity"] > 0
	o.Fingerprint = fingerprint(statsClasses(&o.Stats, "probe.", "fault."), traceKinds(o.Trace), len(o.Violations) > 0)
	if o.Trace != nil {
		var extra c12Extra
		_ = json.Unmarshal(o.Trace.Extra, &extra)
		o.Sample = map[string]interface{}{"seed": o.Trace.Seed, "blocks": len(o.Trace.Blocks), "export_after_block": extra.ExportAfter, "txs_ok": o.Stats.Counters["tx.ok"]}
	}
	return o
}

// c12Enumerate: for short base histories place the export/import after every height in turn.
func c12Enumerate(tier string, emit func(*Outcome)) {
	bases := 1
	if tier == "thorough" {
		bases = 25
	}
	for i := 0; i < bases; i++ {
		seed := RunSeedFor(batchSeed()+1212, "C12", i)
		opts := c12Opts
		opts.Sig = i%3 == 0
		tr, src, _, err := buildEverything(seed, "C12", opts)
		if err != nil {
			emit(&Outcome{InfraErr: err})
			return
		}
		src.nBlocks = 10
		tr.Extra = mustJSON(c12Extra{ExportAfter: 10})
		base := c12Exec(tr, src) // generates the history (no export inside the range)
		if base.InfraErr != nil {
			emit(base)
			return
		}
		for k := 1; k < len(tr.Blocks); k++ {
			t2 := tr.Clone()
			t2.Extra = mustJSON(c12Extra{ExportAfter: k})
			o := c12Replay(t2)
			o.Stats.Inc("probe.enumerated_export_height")
			emit(o)
		}
	}
}

// customExport: the four custom modules' ExportGenesis (the same functions the app export calls), canonicalised.
func customExport(c *kernel.Chain) map[string]string {
	ctx := c.Ctx()
	cdc := kernel.Enc().Marshaler
	out := map[string]string{}
	canon := func(bz []byte) string {
		var v interface{}
		if err := json.Unmarshal(bz, &v); err != nil {
			return "ERR:" + err.Error()
		}
		o, _ := json.Marshal(v)
		return string(o)
	}
	if pi := kernel.Catch("custom export", func() {
		out["cfevesting"] = canon(cdc.MustMarshalJSON(cfevesting.ExportGenesis(ctx, c.App.CfevestingKeeper)))
		out["cfeminter"] = canon(cdc.MustMarshalJSON(cfeminter.ExportGenesis(ctx, c.App.CfeminterKeeper)))
		out["cfedistributor"] = canon(cdc.MustMarshalJSON(cfedistributor.ExportGenesis(ctx, c.App.CfedistributorKeeper)))
		out["cfesignature"] = canon(cdc.MustMarshalJSON(cfesignature.ExportGenesis(ctx, c.App.CfesignatureKeeper)))
	}); pi != nil {
		out["panic"] = pi.Value
	}
	return out
}
