#!/bin/bash
# validates MANIFEST.json and every evidence file against the schemas
python3-vt - <<'PY'
import json,jsonschema,glob,sys
ok=True
try:
    jsonschema.validate(json.load(open('/verif/MANIFEST.json')),json.load(open('/root/.vp/MANIFEST.schema.json'))); print('manifest ok')
except Exception as e:
    ok=False; print('MANIFEST INVALID',str(e)[:300])
sch=json.load(open('/root/.vp/EVIDENCE.schema.json'))
for f in sorted(glob.glob('/verif/evidence/*.json')):
    try:
        jsonschema.validate(json.load(open(f)),sch)
    except Exception as e:
        ok=False; print('INVALID',f,str(e)[:300])
print('evidence files:',len(glob.glob('/verif/evidence/*.json')))
sys.exit(0 if ok else 1)
PY
