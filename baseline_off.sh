#!/bin/bash
# Runs the repository's pinned test suite with the verification guard OFF (no -tags verif) and checks that every
# test of BASELINE.json's stable_pass list passes. Prints a summary; exit 0 iff none of them failed or went missing.
export GOFLAGS=-mod=mod GOPROXY=off GOSUMDB=off GOTOOLCHAIN=local
OUT=$(mktemp /tmp/baseline_off.XXXXXX.json)
(cd /repo && go test -mod=mod -json -vet=off -count=1 -timeout 25m ./... > "$OUT" 2>/dev/null)
python3 - "$OUT" <<'PY'
import json,sys
passed=set(); failed=set()
for line in open(sys.argv[1]):
    try: e=json.loads(line)
    except Exception: continue
    if e.get('Test') and e.get('Action') in ('pass','fail'):
        k=e['Package']+'::'+e['Test']
        (passed if e['Action']=='pass' else failed).add(k)
base=json.load(open('/root/.vp/BASELINE.json'))['stable_pass']
missing=[t for t in base if t not in passed]
print("baseline(guard off): stable=%d passed=%d failed_or_missing=%d"%(len(base),len(base)-len(missing),len(missing)))
for t in missing[:40]: print("  NOT-PASSING:",t, "(failed)" if t in failed else "(missing)")
sys.exit(1 if missing else 0)
PY
rc=$?
rm -f "$OUT"
exit $rc
