#!/bin/bash
# usage: check.sh <property-id> <quick|thorough>
# Rebuilds the simulator from /repo's working tree (hooks on) and runs the property's check.
# exit 0: property held on everything explored; exit 1: VIOLATION line printed; exit 2: infrastructure trouble.
HERE=$(cd "$(dirname "$0")" && pwd)
cd "$HERE" || exit 2
"$HERE/build.sh" || exit 2
exec "$HERE/bin/simcheck" check -prop "$1" -tier "${2:-quick}"
